"""VHDX writer stub, from [MS-VHDX]. struct only, little-endian. Supports fixed/dynamic and differencing."""
from __future__ import annotations

import random
import struct
import uuid

from hvsim.model import Layer, View
from hvsim.simfs import SimFile
from hvsim.world import Image
from hvsim.writers.common import align_up, alloc_units, assign_slots, put_poison, put_view

MB = 1 << 20
G_BAT = uuid.UUID("2DC27766-F623-4200-9D64-115E9BFD4A08")
G_META = uuid.UUID("8B7CA206-4790-4B9A-B8FE-575F050F886E")
G_FILE_PARAMS = uuid.UUID("CAA16737-FA36-4D43-B3B6-33F0AA44E76B")
G_SIZE = uuid.UUID("2FA54224-CD1B-4876-B211-5DBED83BF4B8")
G_DISK_ID = uuid.UUID("BECA12AB-B2E6-4523-93EF-C309E000C746")
G_LSS = uuid.UUID("8141BF1D-A96F-4709-BA47-F233A8FAAB5F")
G_PSS = uuid.UUID("CDA348C7-445D-4471-9CC9-E9885251C556")
G_PARENT = uuid.UUID("A8D35F2D-B30B-454D-ABF7-D3D84834AB0C")
G_PARENT_TYPE = uuid.UUID("B04AEFB7-D19E-4A81-B789-25B8E9445913")

ST_NOT_PRESENT, ST_UNDEFINED, ST_ZERO, ST_UNMAPPED, ST_FULL, ST_PARTIAL = 0, 1, 2, 3, 6, 7

CAPS = {"zero_units": True, "compress": False, "dealloc": True, "keep_alloc": True}

_T = []
for _i in range(256):
    _c = _i
    for _ in range(8):
        _c = (_c >> 1) ^ 0x82F63B78 if _c & 1 else _c >> 1
    _T.append(_c)


def _mat_times(mat, vec):
    s = 0
    i = 0
    while vec:
        if vec & 1:
            s ^= mat[i]
        vec >>= 1
        i += 1
    return s


def _mat_square(mat):
    return [_mat_times(mat, mat[i]) for i in range(32)]


_ZOP = {}


def _zero_op(nbytes: int):
    """Linear operator advancing the raw CRC register over nbytes zero bytes (as in zlib's crc32_combine)."""
    if nbytes in _ZOP:
        return _ZOP[nbytes]
    odd = [0x82F63B78] + [1 << (n - 1) for n in range(1, 32)]  # one zero bit
    even = _mat_square(odd)  # 2 bits
    odd = _mat_square(even)  # 4 bits
    ident = [1 << n for n in range(32)]
    result = ident
    n = nbytes
    cur = _mat_square(odd)  # 8 bits = one byte
    while n:
        if n & 1:
            result = [_mat_times(cur, result[i]) for i in range(32)]
        n >>= 1
        if n:
            cur = _mat_square(cur)
    _ZOP[nbytes] = result
    return result


def crc32c(data: bytes) -> int:
    """CRC-32C (Castagnoli). Trailing zero bytes are folded in with a cached linear operator."""
    body = data.rstrip(b"\0")
    c = 0xFFFFFFFF
    for b in body:
        c = _T[(c ^ b) & 0xFF] ^ (c >> 8)
    tail = len(data) - len(body)
    if tail:
        c = _mat_times(_zero_op(tail), c)
    return c ^ 0xFFFFFFFF


def _guid(seed) -> uuid.UUID:
    return uuid.UUID(int=random.Random(seed).getrandbits(128))


def gen_cfg(rng, tier: str, big: bool = False, diff: bool = False) -> dict:
    lss = rng.choice([512, 512, 4096])
    bs_mb = rng.choice([1, 1, 2, 8, 32, 256] if tier == "quick" else [1, 2, 4, 8, 16, 32, 64, 128, 256])
    spb512 = bs_mb * MB // 512
    ratio = (1 << 23) * lss // (bs_mb * MB)
    r = rng.random()
    if big or r < 0.25:
        # more payload blocks than the chunk ratio: sector-bitmap entries interleave in the BAT
        nblocks = ratio * rng.choice([1, 1, 2, 3]) + rng.choice([1, 2, 5, ratio // 2 + 1])
        if big and rng.random() < 0.5:
            nblocks = min(4 << 20, ((rng.choice([1, 16, 60]) << 40) // (bs_mb * MB)) + rng.randrange(7))
        if nblocks * bs_mb > (64 << 20):  # cap at 64 TiB
            nblocks = ratio + 2
    else:
        nblocks = rng.choice([1, 2, 3, 4, 5, 9])
    nsectors = nblocks * spb512
    if rng.random() < 0.4:
        cut = rng.randint(1, spb512 - 1)
        cut -= cut % (lss // 512)
        if cut and nsectors - cut > 0:
            nsectors -= cut
    return {
        "lss": lss, "pss": rng.choice([512, 4096]), "block": bs_mb * MB, "nsectors": nsectors,
        "fixed": (not diff) and rng.random() < 0.1 and nblocks <= 40,
        "alloc": rng.choice(["seq", "logical", "rev", "perm", "gaps"]), "alloc_seed": rng.getrandbits(32),
        "seq": [rng.randint(1, 1 << 40), rng.choice([0, 1])],  # base sequence number, which header slot is newer
        "meta_order": rng.getrandbits(16), "unknown_item": rng.random() < 0.08,
        "meta_mb": rng.choice([1, 2, 3]), "bat_first": rng.random() < 0.5,
        "unalloc_state": rng.choice([0, 0, 0, 1, 3]), "stale_offsets": rng.random() < 0.3,
        "data_base_mb": rng.choice([0, 0, 0, 4096, 1 << 22]) if not big else rng.choice([4096, 1 << 22, 1 << 30]),
        "id_seed": rng.getrandbits(32), "region_extra": rng.random() < 0.2,
        "leave_alloc": rng.random() < 0.2, "diff": diff,
    }


def ratio_of(cfg) -> int:
    return (1 << 23) * cfg["lss"] // cfg["block"]


def header(seq: int, seed: int) -> bytes:
    r = random.Random(seed)
    h = struct.pack("<4sIQ16s16s16sHHIQ", b"head", 0, seq, _guid(r.random()).bytes_le, _guid(r.random()).bytes_le,
                    bytes(16), 0, 1, MB, MB)
    h = h.ljust(4096, b"\0")
    c = crc32c(h)
    return h[:4] + struct.pack("<I", c) + h[8:]


def parent_locator(entries: list[tuple[str, str]], loc_type: uuid.UUID = G_PARENT_TYPE, order_seed: int = 0) -> bytes:
    n = len(entries)
    head = struct.pack("<16sHH", loc_type.bytes_le, 0, n)
    table_len = 20 + 12 * n
    blobs = []
    pos = table_len
    ent = b""
    # key/value data may be laid out in any order after the entry table
    items = []
    for k, v in entries:
        items.append((k.encode("utf-16-le"), v.encode("utf-16-le")))
    # The key and value strings may be laid out in any order after the entry table: key-then-value per entry, value-then-key,
    # all keys then all values, all values then all keys, or fully shuffled.
    r = random.Random(order_seed)
    layout = r.choice(["kv", "vk", "keys_values", "values_keys", "shuffled"])
    pieces = []
    for i in range(n):
        if layout == "vk":
            pieces += [("v", i), ("k", i)]
        else:
            pieces += [("k", i), ("v", i)]
    if layout == "keys_values":
        pieces = [p for p in pieces if p[0] == "k"] + [p for p in pieces if p[0] == "v"]
    elif layout == "values_keys":
        pieces = [p for p in pieces if p[0] == "v"] + [p for p in pieces if p[0] == "k"]
    elif layout == "shuffled":
        r.shuffle(pieces)
    koff, voff = {}, {}
    for kind, i in pieces:
        b = items[i][0] if kind == "k" else items[i][1]
        (koff if kind == "k" else voff)[i] = pos
        blobs.append(b)
        pos += len(b)
        if r.random() < 0.2:
            blobs.append(b"\0\0")
            pos += 2
    offs = {i: (koff[i], voff[i]) for i in range(n)}
    for i in range(n):
        kb, vb = items[i]
        ent += struct.pack("<IIHH", offs[i][0], offs[i][1], len(kb), len(vb))
    return head + ent + b"".join(blobs)


def render(cfg: dict, layer: Layer, view: View, parent_entries: list[tuple[str, str]] | None = None,
           name: str = "disk.vhdx", loc_type: uuid.UUID = G_PARENT_TYPE) -> Image:
    """layer: this image's layer; view: guest view from this layer down (for COW content of fully present blocks)."""
    img = Image()
    f = SimFile(name)
    diff = parent_entries is not None
    lss = cfg["lss"]
    bs = cfg["block"]
    spb512 = bs // 512
    size = layer.n * 512
    nblocks = layer.nunits
    ratio = ratio_of(cfg)
    nsb = (nblocks + ratio - 1) // ratio
    # -- file identifier, headers -------------------------------------------------------------------
    f.write(0, b"vhdxfile" + "hvsim writer stub".encode("utf-16-le").ljust(512, b"\0"))
    img.field("vhdx.ident.signature", name, 0, 8, "<", "magic")
    base_seq, newer = cfg["seq"]
    seqs = [base_seq + 1, base_seq] if newer == 0 else [base_seq, base_seq + 1]
    for i, off in enumerate((64 << 10, 128 << 10)):
        f.write(off, header(seqs[i], cfg["id_seed"] + i))
        img.field(f"vhdx.header{i + 1}.signature", name, off, 4, "<", "magic")
        img.field(f"vhdx.header{i + 1}.sequence_number", name, off + 8, 8, "<", "int")
        img.field(f"vhdx.header{i + 1}.version", name, off + 66, 2, "<", "version")
        img.field(f"vhdx.header{i + 1}.log_length", name, off + 68, 4, "<", "size")
        img.field(f"vhdx.header{i + 1}.log_offset", name, off + 72, 8, "<", "offset")
    # -- layout of regions ---------------------------------------------------------------------------
    if diff:
        nbat = nsb * (ratio + 1)
    else:
        nbat = nblocks + (nblocks - 1) // ratio
    bat_len = align_up(max(8 * nbat, 1), MB)
    meta_len = cfg["meta_mb"] * MB
    pos = 2 * MB  # after the 1 MiB header area and the 1 MiB log
    if cfg["bat_first"]:
        bat_off = pos
        meta_off = bat_off + bat_len
        pos = meta_off + meta_len
    else:
        meta_off = pos
        bat_off = meta_off + meta_len
        pos = bat_off + bat_len
    data_base = pos + cfg["data_base_mb"] * MB
    # -- region tables ---------------------------------------------------------------------------------
    regs = [(G_BAT, bat_off, bat_len, 1), (G_META, meta_off, meta_len, 1)]
    if cfg["region_extra"]:
        regs.append((_guid(cfg["id_seed"] + 77), data_base - MB if cfg["data_base_mb"] else 0, 0, 0))
        regs = [r for r in regs if r[1]]
    if cfg["meta_order"] & 1:
        regs = regs[::-1]
    rt = struct.pack("<4sIII", b"regi", 0, len(regs), 0)
    for g, o, l, req in regs:
        rt += struct.pack("<16sQII", g.bytes_le, o, l, req)
    rt = rt.ljust(64 << 10, b"\0")
    rt = rt[:4] + struct.pack("<I", crc32c(rt)) + rt[8:]
    for i, off in enumerate((192 << 10, 256 << 10)):
        f.write(off, rt)
        img.field(f"vhdx.region{i + 1}.signature", name, off, 4, "<", "magic")
        img.field(f"vhdx.region{i + 1}.entry_count", name, off + 8, 4, "<", "count")
        for j, (g, o, l, req) in enumerate(regs):
            e = off + 16 + 32 * j
            img.field(f"vhdx.region{i + 1}.entry{j}.guid", name, e, 16, "<", "magic")
            img.field(f"vhdx.region{i + 1}.entry{j}.file_offset", name, e + 16, 8, "<", "offset")
            img.field(f"vhdx.region{i + 1}.entry{j}.length", name, e + 24, 4, "<", "size")
    # -- metadata --------------------------------------------------------------------------------------
    disk_id = _guid(cfg["id_seed"] + 5)
    fp_flags = (1 if (cfg["leave_alloc"] or cfg["fixed"]) else 0) | (2 if diff else 0)
    items = [
        (G_FILE_PARAMS, struct.pack("<II", bs, fp_flags), 0b100),
        (G_SIZE, struct.pack("<Q", size), 0b110),
        (G_DISK_ID, disk_id.bytes_le, 0b110),
        (G_LSS, struct.pack("<I", lss), 0b110),
        (G_PSS, struct.pack("<I", cfg["pss"]), 0b110),
    ]
    if diff:
        items.append((G_PARENT, parent_locator(parent_entries, loc_type, cfg["id_seed"]), 0b100))
    if cfg["unknown_item"]:
        items.append((_guid(cfg["id_seed"] + 99), b"user metadata blob", 0b001))  # IsUser, not required
    random.Random(cfg["meta_order"]).shuffle(items)
    mt = struct.pack("<8sHH20s", b"metadata", 0, len(items), bytes(20))
    ipos = 64 << 10
    blobs = []
    for j, (g, blob, flags) in enumerate(items):
        mt += struct.pack("<16sIIII", g.bytes_le, ipos, len(blob), flags, 0)
        e = meta_off + 32 + 32 * j
        img.field(f"vhdx.meta.entry{j}.item_id", name, e, 16, "<", "magic")
        img.field(f"vhdx.meta.entry{j}.offset", name, e + 16, 4, "<", "offset")
        img.field(f"vhdx.meta.entry{j}.length", name, e + 20, 4, "<", "size")
        if g == G_FILE_PARAMS:
            img.field("vhdx.meta.block_size", name, meta_off + ipos, 4, "<", "size")
            img.field("vhdx.meta.fp_flags", name, meta_off + ipos + 4, 4, "<", "flags")
        elif g == G_SIZE:
            img.field("vhdx.meta.virtual_disk_size", name, meta_off + ipos, 8, "<", "size")
        elif g == G_LSS:
            img.field("vhdx.meta.logical_sector_size", name, meta_off + ipos, 4, "<", "size")
        elif g == G_PARENT:
            img.field("vhdx.meta.locator_type", name, meta_off + ipos, 16, "<", "magic")
            img.field("vhdx.meta.locator_count", name, meta_off + ipos + 18, 2, "<", "count")
        blobs.append((ipos, blob))
        ipos += align_up(len(blob), 8) + (8 if j % 2 else 0)
    f.write(meta_off, mt)
    img.field("vhdx.meta.signature", name, meta_off, 8, "<", "magic")
    img.field("vhdx.meta.entry_count", name, meta_off + 10, 2, "<", "count")
    for p, blob in blobs:
        f.write(meta_off + p, blob)
    # -- BAT + payload -----------------------------------------------------------------------------------
    need = []
    states = {}
    stale_own = set()
    default_state = ST_FULL if cfg["fixed"] else (ST_NOT_PRESENT if diff else cfg["unalloc_state"])
    for u in (range(nblocks) if cfg["fixed"] else sorted(set(layer.touch) | set(layer.flags))):
        a, b = layer.urange(u)
        st = layer.ustate(u)
        if cfg["fixed"]:
            states[u] = ST_FULL
        elif st == "zalloc":
            # trimmed / zeroed block that keeps its old file offset (stale data there must never be served)
            states[u] = ST_ZERO if (cfg["alloc_seed"] + u) % 2 else (ST_ZERO if diff else ST_UNMAPPED)
            stale_own.add(u)
        elif st == "zero":
            states[u] = ST_ZERO
        elif st == "unalloc":
            states[u] = ST_NOT_PRESENT if diff else cfg["unalloc_state"]
        elif diff and not layer.own.full(a, b) and st == "data":
            states[u] = ST_PARTIAL
        else:
            states[u] = ST_FULL
    touched = [u for u in layer.touch if states.get(u) in (ST_FULL, ST_PARTIAL) or u in stale_own]
    tset = set(touched)
    rest = [u for u in range(nblocks) if u not in tset] if cfg["fixed"] else []
    need = touched + rest
    chunks_with_partial = sorted({u // ratio for u in need if states[u] == ST_PARTIAL})
    # sector bitmap blocks take slots too (interleaved with payload blocks in the data area)
    slot_items = [("pb", u) for u in need]
    for c in chunks_with_partial:
        slot_items.insert(random.Random(cfg["alloc_seed"] + c).randint(0, len(slot_items)), ("sb", c))
    order, nslots = assign_slots(list(range(len(slot_items))), cfg["alloc"], cfg["alloc_seed"])
    # slots are in MiB units of variable size: compute byte positions by walking slots in order
    inv = sorted(range(len(slot_items)), key=lambda i: order[i])
    posn = {}
    cur = data_base
    prev = -1
    for i in inv:
        gap = order[i] - prev - 1
        if gap:
            put_poison(f, cur, gap * MB, 0x57A1)
            cur += gap * MB
        prev = order[i]
        kind, idx = slot_items[i]
        posn[(kind, idx)] = cur
        cur += bs if kind == "pb" else MB
    stale = (data_base // MB) if cfg["stale_offsets"] and need else 0
    dflt = default_state | ((stale << 20) if (default_state in (ST_UNDEFINED, ST_UNMAPPED) and stale) else 0)
    bat = [dflt] * nbat
    for u in states:
        e = u + u // ratio
        st = states[u]
        if st in (ST_FULL, ST_PARTIAL) or u in stale_own:
            bat[e] = st | ((posn[("pb", u)] // MB) << 20)
        elif st in (ST_UNDEFINED, ST_ZERO, ST_UNMAPPED) and stale:
            bat[e] = st | (stale << 20)  # stale offset: must not be followed
        else:
            bat[e] = st
    for c in range(nsb):
        e = (c + 1) * ratio + c
        if e < nbat:
            if c in chunks_with_partial:
                bat[e] = 6 | ((posn[("sb", c)] // MB) << 20)
            else:
                bat[e] = 0
    f.write(bat_off, struct.pack("<%dQ" % nbat, *bat))
    img.field("vhdx.bat", name, bat_off, 8 * nbat, "<", "table")
    for i in range(min(nbat, 4)):
        img.field(f"vhdx.bat[{i}]", name, bat_off + 8 * i, 8, "<", "int")
    for u in need:
        a, b = layer.urange(u)
        p = posn[("pb", u)]
        if u in stale_own:
            put_poison(f, p, bs, 0x7A1E)
        elif states[u] == ST_FULL:
            put_view(f, p, view, a, b)
            if b - a < spb512:
                put_poison(f, p + (b - a) * 512, (spb512 - (b - a)) * 512, 0xB10C)
        else:
            # partially present: own sectors hold data, everything else is stale
            put_poison(f, p, bs, 0x9A47)
            for sa, sb_, v in layer.own.segs(a, b):
                if v is not None:
                    f.punch(p + (sa - a) * 512, (sb_ - sa) * 512)
                    if v != "Z":
                        f.write_pat(p + (sa - a) * 512, v[1], v[2], sa, sb_ - sa)
    sec = lss // 512
    for c in chunks_with_partial:
        bm = bytearray(MB)
        for u in range(c * ratio, min((c + 1) * ratio, nblocks)):
            a, b = layer.urange(u)
            if states.get(u, default_state) == ST_PARTIAL:
                for sa, sb_, v in layer.own.segs(a, b):
                    if v is not None:
                        assert sa % sec == 0 and sb_ % sec == 0, "differencing writes must be sector aligned"
                        for s in range((sa - c * ratio * spb512) // sec, (sb_ - c * ratio * spb512) // sec):
                            bm[s >> 3] |= 1 << (s & 7)
            elif states.get(u, default_state) == ST_FULL:
                # bits for fully present blocks are 1 by convention (readers must not consult them)
                s0 = (a - c * ratio * spb512) // sec
                s1 = (a + spb512 - c * ratio * spb512) // sec
                if cfg["alloc_seed"] & 1:
                    bm[s0 >> 3 : s1 >> 3] = b"\xff" * ((s1 >> 3) - (s0 >> 3))
        f.write_blob(posn[("sb", c)], bytes(bm))  # a bit array, not a structure with fields
    f.set_length(max(f.length, cur, data_base))
    img.files[name] = f
    img.main = name
    img.meta = {"size": size, "block_size": bs, "sector_size": lss, "id": disk_id, "has_parent": diff,
                "sequence_number": base_seq + 1, "parent_entries": dict(parent_entries) if diff else None,
                "pss": cfg["pss"]}
    img.meta_bytes = 320 * 1024 + 4096 + 8 * nbat
    img.info = {"bat": bat, "unit_bytes": bs, "states": states, "ratio": ratio, "nbat": nbat, "bat_off": bat_off,
                "default_state": default_state}
    return img
