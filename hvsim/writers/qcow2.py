"""QCOW2 writer stub, from qemu docs/interop/qcow2.txt. struct only, big-endian.

Supports v2/v3 headers, cluster_bits 9..21, standard and extended L2 entries, zero clusters (plain/allocated),
raw-deflate compressed clusters at arbitrary byte offsets, external data file, backing file name + format,
header extensions, internal snapshots (independent L1 trees), dirty bit.  Refcount structures are emitted as
placeholders (the reader under test never consults them)."""
from __future__ import annotations

import random
import struct
import zlib

from hvsim.model import Layer, View
from hvsim.simfs import SimFile
from hvsim.world import Image
from hvsim.writers.common import align_up, alloc_units, assign_slots, put_poison, put_view

MAGIC = 0x514649FB
COPIED = 1 << 63
COMPRESSED = 1 << 62
EXT_END, EXT_BACKING_FMT, EXT_FEATURES, EXT_DATA_FILE = 0, 0xE2792ACA, 0x6803F857, 0x44415441
INCOMPAT_DIRTY, INCOMPAT_DATA_FILE, INCOMPAT_COMPRESSION, INCOMPAT_EXTL2 = 1, 4, 8, 16


def gen_cfg(rng, tier: str, big: bool = False, backing: str | None = "maybe") -> dict:
    version = rng.choice([2, 3, 3, 3])
    cbs = [9, 9, 10, 12, 12, 14, 16, 16] if tier == "quick" else [9, 10, 11, 12, 13, 14, 15, 16, 16, 17, 18, 20, 21]
    cb = rng.choice(cbs)
    if big and rng.random() < 0.3:
        cb = rng.choice([20, 21, 21])  # the largest cluster sizes only make sense on large disks
    extl2 = version == 3 and cb >= 14 and rng.random() < 0.5
    if version == 3 and rng.random() < 0.25 and not extl2:
        cb = rng.choice([14, 16])
        extl2 = True
    cs = 1 << cb
    l2_size = cs // (16 if extl2 else 8)
    r = rng.random()
    if big:
        nclusters = l2_size * rng.choice([rng.randint(3, 300), rng.randint(300, 40000)]) + rng.randrange(l2_size)
        nclusters = min(nclusters, (60 << 40) >> cb)
    elif r < 0.15 and cb <= 12:
        nclusters = l2_size * rng.choice([129, 130, 140]) + rng.randrange(l2_size)  # more L2 tables than the cache holds
    elif r < 0.5:
        nclusters = l2_size * rng.choice([1, 2, 3]) + rng.choice([0, 1, l2_size - 1, rng.randrange(l2_size)])
    else:
        nclusters = rng.choice([1, 2, 3, 5, 8, 17])
    unit = cs // 512
    nsectors = max(1, nclusters * unit - (rng.randrange(unit) if rng.random() < 0.3 else 0))
    data_file = version == 3 and rng.random() < 0.15
    compress = (not data_file) and rng.random() < 0.5
    exts = []
    if rng.random() < 0.3:
        exts.append(["features", rng.randint(1, 3)])
    if rng.random() < 0.25:
        exts.append(["unknown", rng.getrandbits(32) | 0x80000000, rng.choice([0, 1, 7, 8, 9, 24])])
    has_backing = backing == "yes" or (backing == "maybe" and rng.random() < 0.4)
    cfg = {
        "version": version, "cluster_bits": cb, "extl2": extl2, "nsectors": nsectors, "data_file": data_file,
        "compress": compress, "zero_flag": version == 3, "header_length": rng.choice([104, 112, 112, 120]) if version == 3 else 72,
        "compression_type_field": version == 3, "exts": exts, "dirty": version == 3 and rng.random() < 0.1,
        "alloc": rng.choice(["seq", "logical", "logical", "rev", "perm", "gaps"]), "alloc_seed": rng.getrandbits(32),
        "meta_alloc": rng.choice(["seq", "rev", "perm"]),
        "data_far": rng.choice([0, 0, 0, 0, 1 << 32, 1 << 40, (1 << 32) + (1 << 20)]) if not big else rng.choice([1 << 32, 1 << 40, 1 << 44]),
        "l2_far": rng.choice([0, 0, 0, 1 << 32, 1 << 41]),
        "comp_far": rng.choice([0, 0, 0, 1 << 32, 1 << 42]), "tight_eof": rng.random() < 0.3, "data_file_named": rng.random() < 0.65, "copied_clear": rng.random() < 0.3,
        "comp_level": rng.choice([1, 6, 9]), "comp_pack": rng.choice(["tight", "sector", "odd"]),
        "l1_extra": rng.choice([0, 0, 1, 5]),
        "snap_far": rng.choice([0, 0, 0, 1 << 32, 1 << 42]),
        "backing_gap": rng.choice([0, 0, 8, 3, 100, "end"]),  # where in the first cluster the backing file name sits  # snapshot table (and snapshot L1 tables) beyond 4 GiB
        "extl2_zero_as": rng.choice(["bit", "bit", "data"]), "extl2_keep_offset": rng.random() < 0.5,
        "backing": None,
    }
    if has_backing:
        bn = rng.choice([nsectors, nsectors, max(1, nsectors // 2), max(1, nsectors - 1), nsectors + unit, max(1, nsectors - unit // 2 - 1)])
        cfg["backing"] = {"nsectors": bn, "name": rng.choice(["base.raw", "base image.img", "../b/base.raw", "bäse.raw"]),
                          "format": rng.choice([None, "raw", "RAW"])}
    if cs < 2048:
        cfg["exts"] = [e for e in cfg["exts"] if e[0] != "features"][:1]
    return cfg


def caps(cfg) -> dict:
    return {"zero_units": cfg["zero_flag"], "compress": cfg["compress"], "dealloc": True, "keep_alloc": not cfg["extl2"],
            "forced": cfg["extl2"]}


def unit_sectors(cfg) -> int:
    return (1 << cfg["cluster_bits"]) // 512


class Root:
    """One L1 tree: the active image or an internal snapshot."""

    def __init__(self, layer: Layer, view: View, snap: dict | None = None):
        self.layer = layer
        self.view = view
        self.snap = snap  # {"id","name","extra_size","vm_state_size",...} for snapshots


def render(cfg: dict, roots: list[Root], name: str = "disk.qcow2") -> Image:
    img = Image()
    f = SimFile(name)
    cb = cfg["cluster_bits"]
    cs = 1 << cb
    unit = cs // 512
    extl2 = cfg["extl2"]
    esz = 16 if extl2 else 8
    l2_size = cs // esz
    sub = unit // 32 if extl2 else unit  # sectors per sub-cluster
    active = roots[0]
    size = active.layer.n * 512
    df = SimFile("disk.data") if cfg["data_file"] else None
    datafile = df if df is not None else f
    rng = random.Random(cfg["alloc_seed"])

    # ---- plan metadata + data placement ------------------------------------------------------------------
    meta_items = []  # (kind, key, nclusters)
    l1_sizes = []
    for ri, root in enumerate(roots):
        ncl = root.layer.nunits
        l1n = (ncl + l2_size - 1) // l2_size + (cfg["l1_extra"] if ri == 0 else 0)
        l1n = max(l1n, 1)
        l1_sizes.append(l1n)
        meta_items.append(("l1", ri, (l1n * 8 + cs - 1) // cs))
    meta_items.append(("reftable", 0, 1))
    meta_items.append(("refblock", 0, 1))
    if len(roots) > 1:
        meta_items.append(("snaptable", 0, 0))  # size fixed below
    need_by_root = []
    l2_needed = []
    for ri, root in enumerate(roots):
        L = root.layer
        need = []
        tables = set()
        for u in L.touch:
            st = L.ustate(u)
            if st != "unalloc":
                tables.add(u // l2_size)
            if st in ("data", "zalloc", "forced") or (st == "comp"):
                need.append(u)
        for u, fl in L.flags.items():
            if fl in ("zero", "zalloc", "comp", "forced"):
                tables.add(u // l2_size)
        need_by_root.append(need)
        for t in sorted(tables):
            l2_needed.append((ri, t))
    # snapshot table bytes
    snap_blob = b""
    # L2 tables get their own (possibly far) area
    l2_slots, n_l2 = assign_slots(list(range(len(l2_needed))), cfg["meta_alloc"], cfg["alloc_seed"] ^ 0x55)
    # metadata clusters: start at cluster 1
    pos = 1
    meta_pos = {}
    order = list(range(len(meta_items)))
    if cfg["meta_alloc"] != "seq":
        rng.shuffle(order)
    snap_entries = []
    if len(roots) > 1:
        for ri, root in enumerate(roots[1:], 1):
            snap_entries.append((ri, root.snap))
    far_items = []
    for i in order:
        kind, key, n = meta_items[i]
        if kind == "snaptable":
            n = 1 + sum(64 + len(s["id"].encode()) + len(s["name"].encode()) + s["extra_size"] for _, s in snap_entries) // cs
        if cfg.get("snap_far") and (kind == "snaptable" or (kind == "l1" and key > 0)):
            far_items.append((kind, key, max(n, 1)))
            continue
        meta_pos[(kind, key)] = pos * cs
        pos += max(n, 1)
    cursor = pos * cs  # everything below is laid out at increasing offsets, so areas never overlap
    l2_base = align_up(cursor + cfg["l2_far"], cs)
    l2_pos = {l2_needed[i]: l2_base + l2_slots[i] * cs for i in range(len(l2_needed))}
    cursor = l2_base + n_l2 * cs
    # data clusters (uncompressed)
    data_items = []
    comp_items = []
    for ri, need in enumerate(need_by_root):
        for u in need:
            if roots[ri].layer.ustate(u) == "comp":
                comp_items.append((ri, u))
            else:
                data_items.append((ri, u))
    d_slots, n_d = assign_slots(list(range(len(data_items))), cfg["alloc"], cfg["alloc_seed"])
    if df is not None:
        data_base = 0
    else:
        data_base = align_up(cursor + cfg["data_far"], cs)
        cursor = data_base + n_d * cs
    data_pos = {data_items[i]: data_base + d_slots[i] * cs for i in range(len(data_items))}
    used = {d_slots[i] for i in range(len(data_items))}
    for s in range(n_d):
        if s not in used:
            put_poison(datafile, data_base + s * cs, cs, 0x57A1)
    comp_base = align_up(cursor + cfg["comp_far"], cs)
    if far_items:
        fpos = align_up(max(cursor, comp_base) + cfg["snap_far"] + (1 << 30), cs)
        for kind, key, n in far_items:
            meta_pos[(kind, key)] = fpos
            fpos += n * cs
        far_meta_end = fpos
    else:
        far_meta_end = 0

    # ---- compressed clusters --------------------------------------------------------------------------------
    comp_desc = {}
    cpos = comp_base
    x = 62 - (cb - 8)
    for ri, u in comp_items:
        a, b = roots[ri].layer.urange(u)
        raw = roots[ri].view.sectors(a, b)
        if len(raw) < cs:
            raw += bytes(cs - len(raw))
        co = zlib.compressobj(cfg["comp_level"], zlib.DEFLATED, -12)
        blob = co.compress(raw) + co.flush()
        if cfg["comp_pack"] == "sector":
            cpos = align_up(cpos, 512)
        elif cfg["comp_pack"] == "odd":
            cpos += rng.choice([0, 1, 3, 17, 511])
        nsec = ((cpos + len(blob) - 1) >> 9) - (cpos >> 9)
        if len(blob) >= cs or nsec >= (1 << (cb - 8)):
            # does not fit the descriptor: store uncompressed instead (what a real writer does)
            roots[ri].layer.flags.pop(u, None)
            roots[ri].layer._touch(u)
            p = align_up(cpos, cs)
            put_view(f, p, roots[ri].view, a, b)
            data_pos[(ri, u)] = p
            cpos = p + cs
            continue
        f.write_blob(cpos, blob)
        comp_desc[(ri, u)] = COMPRESSED | (nsec << x) | cpos
        cpos += len(blob)
    if comp_items and not cfg.get("tight_eof"):
        put_poison(f, align_up(cpos, 512), 1024, 0xC0DE)
    file_end = max(align_up(cpos, cs), cursor, far_meta_end)

    # ---- data clusters --------------------------------------------------------------------------------------
    for (ri, u), p in data_pos.items():
        L = roots[ri].layer
        a, b = L.urange(u)
        st = L.ustate(u)
        if st in ("zalloc",):
            put_poison(datafile, p, cs, 0x2E80)
            continue
        if extl2:
            put_poison(datafile, p, cs, 0x5C5C)
            run0 = None
            for sc in range(33):
                sa, sb = a + sc * sub, min(a + (sc + 1) * sub, b)
                is_alloc = sc < 32 and sa < b and _sc_state(L, sa, sb, cfg) == "alloc"
                if is_alloc and run0 is None:
                    run0 = sa
                elif not is_alloc and run0 is not None:
                    e_ = min(sa, b)
                    datafile.punch(p + (run0 - a) * 512, (e_ - run0) * 512)
                    put_view(datafile, p + (run0 - a) * 512, roots[ri].view, run0, e_)
                    run0 = None
        else:
            put_view(datafile, p, roots[ri].view, a, b)
            if b - a < unit:
                put_poison(datafile, p + (b - a) * 512, (unit - (b - a)) * 512, 0xB10C)

    # ---- L2 tables, L1 tables ------------------------------------------------------------------------------
    l1_tables = []
    units_by_table = []
    for root in roots:
        d = {}
        for u in set(root.layer.touch) | set(root.layer.flags):
            d.setdefault(u // l2_size, []).append(u)
        units_by_table.append(d)
    for ri, root in enumerate(roots):
        L = root.layer
        l1 = [0] * l1_sizes[ri]
        for (r2, t), p in l2_pos.items():
            if r2 != ri:
                continue
            l1[t] = p | (0 if (cfg.get("copied_clear") and (t + cfg["alloc_seed"]) % 2) else COPIED)
            # only units this root ever touched can have a non-zero entry: fill those, leave the rest of the table zero
            step = 2 if extl2 else 1
            words = [0] * (l2_size * step)
            for u in units_by_table[ri].get(t, ()):
                w0, w1 = _l2_entry(cfg, L, u, data_pos.get((ri, u)), comp_desc.get((ri, u)), sub, df is not None)
                i = u - t * l2_size
                words[i * step] = w0
                if extl2:
                    words[i * step + 1] = w1
            f.write(p, struct.pack(">%dQ" % len(words), *words))
        l1_tables.append(l1)
        f.write(meta_pos[("l1", ri)], struct.pack(">%dQ" % len(l1), *l1))
    file_end = max(file_end, max([p + cs for p in l2_pos.values()], default=0))

    # ---- snapshot table -------------------------------------------------------------------------------------
    snap_off = 0
    snaps_meta = []
    if snap_entries:
        snap_off = meta_pos[("snaptable", 0)]
        blob = b""
        for ri, s in snap_entries:
            idb, nb = s["id"].encode(), s["name"].encode()
            extra = struct.pack(">QQQ", s.get("vm_state_size_large", 0), roots[ri].layer.n * 512, s.get("icount", 0))[: s["extra_size"]]
            extra = extra.ljust(s["extra_size"], b"\xee")
            e = struct.pack(">QIHHIIQII", meta_pos[("l1", ri)], l1_sizes[ri], len(idb), len(nb), s.get("date_sec", 0),
                            s.get("date_nsec", 0), s.get("vm_clock", 0), s.get("vm_state_size", 0), len(extra))
            entry_off = snap_off + len(blob)
            e += extra + idb + nb
            e += bytes(-len(e) % 8)  # entries are padded to a multiple of 8 bytes
            img.field(f"qcow2.snap{ri}.l1_table_offset", name, entry_off, 8, ">", "offset")
            img.field(f"qcow2.snap{ri}.l1_size", name, entry_off + 8, 4, ">", "count")
            img.field(f"qcow2.snap{ri}.id_str_size", name, entry_off + 12, 2, ">", "size")
            img.field(f"qcow2.snap{ri}.extra_data_size", name, entry_off + 36, 4, ">", "size")
            blob += e
            snaps_meta.append({"id": s["id"], "name": s["name"], "l1_size": l1_sizes[ri], "l1_offset": meta_pos[("l1", ri)],
                               "extra_size": s["extra_size"], "vm_state_size": s.get("vm_state_size", 0),
                               "vm_clock": s.get("vm_clock", 0), "disk_size": roots[ri].layer.n * 512,
                               "date_sec": s.get("date_sec", 0)})
        f.write(snap_off, blob)

    # ---- refcount placeholders -------------------------------------------------------------------------------
    f.write(meta_pos[("reftable", 0)], struct.pack(">Q", meta_pos[("refblock", 0)]))
    f.write(meta_pos[("refblock", 0)], struct.pack(">8H", *([1] * 8)))

    # ---- header, extensions, backing name -----------------------------------------------------------------
    incompat = (INCOMPAT_DIRTY if cfg["dirty"] else 0) | (INCOMPAT_DATA_FILE if df is not None else 0) | (INCOMPAT_EXTL2 if extl2 else 0)
    hl = cfg["header_length"]
    ext_blob = b""
    ext_meta = {"backing_format": None, "data_file": None, "unknown": [], "feature_table": None}
    exts = list(cfg["exts"])
    if cfg["backing"] and cfg["backing"]["format"]:
        exts.insert(0, ["backing_fmt", cfg["backing"]["format"]])
    if df is not None and cfg.get("data_file_named", True):
        exts.append(["data_file", "disk.data"])  # the name extension is optional: the feature bit alone says there is a data file
    ext_start = hl
    for e in exts:
        if e[0] == "backing_fmt":
            t, d = EXT_BACKING_FMT, e[1].encode()
            ext_meta["backing_format"] = e[1]
        elif e[0] == "data_file":
            t, d = EXT_DATA_FILE, e[1].encode()
            ext_meta["data_file"] = e[1]
        elif e[0] == "features":
            t = EXT_FEATURES
            d = b"".join(struct.pack(">BB46s", 0, i, b"feature%d" % i) for i in range(e[1]))
            ext_meta["feature_table"] = d
        else:
            t = e[1]
            d = bytes((i * 7 + 1) & 0xFF for i in range(e[2]))
            ext_meta["unknown"].append((t, d))
        img.field(f"qcow2.ext{len(ext_blob)}.type", name, ext_start + len(ext_blob), 4, ">", "magic")
        img.field(f"qcow2.ext{len(ext_blob)}.len", name, ext_start + len(ext_blob) + 4, 4, ">", "size")
        ext_blob += struct.pack(">II", t, len(d)) + d + bytes(-len(d) % 8)
    ext_blob += struct.pack(">II", EXT_END, 0)
    backing_off = backing_len = 0
    bname = b""
    if cfg["backing"]:
        bname = cfg["backing"]["name"].encode()
        backing_off = hl + len(ext_blob)
        backing_len = len(bname)
        gap = cfg.get("backing_gap", 0)
        if gap == "end":
            backing_off = cs - len(bname)
        elif backing_off + gap + len(bname) <= cs:
            backing_off += gap
    assert hl + len(ext_blob) <= backing_off or not bname, "backing name must follow the extensions"
    assert (backing_off + len(bname) if bname else hl + len(ext_blob)) <= cs, "header area must fit the first cluster"
    hdr = struct.pack(">IIQIIQIIQQIIQ", MAGIC, cfg["version"], backing_off, backing_len, cb, size, 0, l1_sizes[0],
                      meta_pos[("l1", 0)], meta_pos[("reftable", 0)], 1, len(snap_entries), snap_off)
    if cfg["version"] == 3:
        hdr += struct.pack(">QQQII", incompat, 0, 0, 4, hl)
        if hl > 104:
            hdr += struct.pack(">B", 0) + bytes(hl - 105)
    assert len(hdr) == hl
    f.write(0, hdr + ext_blob)
    if bname:
        f.write(backing_off, bname)
    for n, off, w, k in [("magic", 0, 4, "magic"), ("version", 4, 4, "version"), ("backing_file_offset", 8, 8, "offset"),
                         ("backing_file_size", 16, 4, "size"), ("cluster_bits", 20, 4, "size"), ("size", 24, 8, "size"),
                         ("crypt_method", 32, 4, "int"), ("l1_size", 36, 4, "count"), ("l1_table_offset", 40, 8, "offset"),
                         ("refcount_table_offset", 48, 8, "offset"), ("refcount_table_clusters", 56, 4, "count"),
                         ("nb_snapshots", 60, 4, "count"), ("snapshots_offset", 64, 8, "offset")]:
        img.field("qcow2.hdr." + n, name, off, w, ">", k)
    if cfg["version"] == 3:
        for n, off, w, k in [("incompatible_features", 72, 8, "flags"), ("compatible_features", 80, 8, "flags"),
                             ("autoclear_features", 88, 8, "flags"), ("refcount_order", 96, 4, "int"),
                             ("header_length", 100, 4, "size")]:
            img.field("qcow2.hdr." + n, name, off, w, ">", k)
        if hl > 104:
            img.field("qcow2.hdr.compression_type", name, 104, 1, ">", "int")
    l1off = meta_pos[("l1", 0)]
    for i in range(min(l1_sizes[0], 3)):
        img.field(f"qcow2.l1[{i}]", name, l1off + 8 * i, 8, ">", "int")
    for (ri, t), p in list(l2_pos.items())[:2]:
        for i in range(3):
            img.field(f"qcow2.l2_{ri}_{t}[{i}]", name, p + esz * i, 8, ">", "int")
            if extl2:
                img.field(f"qcow2.l2_{ri}_{t}[{i}].bitmap", name, p + esz * i + 8, 8, ">", "int")
    f.set_length(max(f.length, file_end, cs))
    if cfg.get("tight_eof") and comp_desc and f._ext and f._ext[-1][1] == cpos and cpos > cs:
        # the image file ends with the last byte of the last compressed cluster (qemu packs them byte-wise and does not pad the
        # file): that cluster's descriptor counts whole sectors and so names a range reaching past the end of the file
        f.set_length(cpos)
        img.info["tight_eof"] = True
    img.files[name] = f
    if df is not None:
        df.set_length(max(df.length, data_base + n_d * cs))
        img.files["disk.data"] = df
    img.main = name
    img.meta = {"size": size, "cluster_size": cs, "backing_file": cfg["backing"]["name"] if cfg["backing"] else None,
                "backing_format": ext_meta["backing_format"], "data_file": ext_meta["data_file"],
                "unknown_extensions": ext_meta["unknown"], "feature_table": ext_meta["feature_table"],
                "snapshots": snaps_meta, "version": cfg["version"]}
    n_l2_tables = len(l2_pos)
    img.meta_bytes = cs + sum(l1_sizes) * 8 + n_l2_tables * cs
    img.info = {"unit_bytes": cs, "l2_pos": {f"{k[0]}:{k[1]}": v for k, v in l2_pos.items()}, "n_l2": n_l2_tables,
                "data_pos": sorted(data_pos.values()), "comp": len(comp_desc), "l2_size": l2_size,
                "comp_offsets": [d & ((1 << x) - 1) for d in comp_desc.values()]}
    return img


def _sc_state(L: Layer, sa: int, sb: int, cfg) -> str:
    """State of one sub-cluster [sa, sb): 'unalloc' | 'zero' | 'alloc'."""
    segs = L.own.segs(sa, sb)
    if all(v is None for _, _, v in segs):
        return "unalloc"
    if all(v == "Z" for _, _, v in segs) and cfg["extl2_zero_as"] == "bit":
        return "zero"
    return "alloc"


def _l2_entry(cfg, L: Layer, u: int, dpos, cdesc, sub: int, ext_data: bool):
    w0, w1 = _l2_entry_copied(cfg, L, u, dpos, cdesc, sub, ext_data)
    if cfg.get("copied_clear") and (w0 & COPIED) and (w0 & ((1 << 56) - 512)) and (u * 2654435761 + cfg["alloc_seed"]) % 3 == 0:
        # COPIED only says "refcount is exactly one" (a cluster shared with a snapshot has it clear); it never takes part in
        # addressing - except at host offset 0 of an external data file, which is left alone
        w0 &= ~COPIED
    return w0, w1


def _l2_entry_copied(cfg, L: Layer, u: int, dpos, cdesc, sub: int, ext_data: bool):
    if u >= L.nunits:
        return 0, 0
    st = L.ustate(u)
    if st == "comp" and cdesc is not None:
        return cdesc, 0
    extl2 = cfg["extl2"]
    if not extl2:
        if st == "unalloc":
            return 0, 0
        if st == "zero":
            return 1, 0
        if st == "zalloc":
            return dpos | COPIED | 1, 0
        return dpos | COPIED, 0
    # extended L2
    a, b = L.urange(u)
    if st == "zero":
        return 0, ((1 << 32) - 1) << 32
    if st == "unalloc":
        return 0, 0
    alloc = zero = 0
    for sc in range(32):
        sa, sb = a + sc * sub, min(a + (sc + 1) * sub, b)
        if sa >= b:
            break
        s = _sc_state(L, sa, sb, cfg)
        if s == "alloc":
            alloc |= 1 << sc
        elif s == "zero":
            zero |= 1 << sc
    if alloc == 0 and not cfg["extl2_keep_offset"] and st != "forced":
        return 0, zero << 32  # unallocated cluster carrying zero sub-clusters only
    return dpos | COPIED, alloc | (zero << 32)
