"""VMDK extent writer stubs: hosted sparse (KDMV), stream-optimised, ESX COWD, SE-sparse, flat; descriptor text.
From VMware "Virtual Disk Format 1.1", QEMU block/vmdk.c and the repo's SE-sparse fixture (see notes/format-crib.md).
struct only, little-endian."""
from __future__ import annotations

import struct
import zlib

from hvsim.model import Layer, View
from hvsim.simfs import SimFile
from hvsim.world import Image
from hvsim.writers.common import align_up, alloc_units, assign_slots, put_poison, put_view

GD_AT_END = 0xFFFFFFFFFFFFFFFF
FLAG_NL, FLAG_RGD, FLAG_ZERO_GTE, FLAG_COMPRESSED, FLAG_MARKERS = 1, 2, 4, 0x10000, 0x20000
KINDS = ("hosted", "stream", "cowd", "sesparse", "flat")


def gen_cfg(rng, tier: str, big: bool = False, kind: str | None = None) -> dict:
    kind = kind or rng.choice(["hosted", "hosted", "stream", "cowd", "sesparse", "sesparse", "flat"])
    cfg = {"kind": kind, "alloc": rng.choice(["seq", "logical", "rev", "perm", "gaps"]), "alloc_seed": rng.getrandbits(32),
           "cid": "%08x" % rng.getrandbits(32), "embed_desc": True, "far": False}
    if kind in ("hosted", "stream"):
        grain = rng.choice([16, 32, 128, 128, 128, 256, 8] if kind == "hosted" else [16, 64, 128, 128])
        gtes = rng.choice([512, 512, 512, 64, 16, 1024, 4, 128])
        cover = grain * gtes
        r = rng.random()
        if big:
            ngt = rng.randint(129, 600)
        elif r < 0.12:
            ngt = rng.choice([129, 130, 200, 257])  # more than 128 grain tables
        else:
            ngt = rng.choice([1, 1, 2, 3, 5])
        nsectors = ngt * cover - rng.choice([0, 0, grain * rng.randrange(gtes), rng.randrange(cover)])
        nsectors = max(1, nsectors)
        cfg.update(grain=grain, gtes=gtes, nsectors=nsectors, zero_gte=rng.random() < 0.6,
                   rgd=(kind == "hosted" and rng.random() < 0.5), embed_desc=rng.random() < 0.8,
                   desc_sectors=rng.choice([20, 20, 2, 40]), level=rng.choice([1, 6, 9]),
                   pad_overhead=rng.choice([0, 0, 1, 7, 128]), sparse_gts=(kind == "stream" or rng.random() < 0.3),
                   desc_late=(kind == "hosted" and rng.random() < 0.3),
                   dirty=rng.random() < 0.1)
        if kind == "stream":
            cfg["stream_pad"] = rng.choice(["tight", "tight", "stride", "stride", "slack"])
        if kind == "hosted":
            cfg["compressed_grains"] = grain >= 8 and rng.random() < 0.15
            # grain tables / grains in the upper half of the 32-bit sector range (an extent file between 1 and 2 TiB)
            cfg["far"] = rng.choice(["data31", "datatop", "gt31", "all31"]) if (big and rng.random() < 0.7) or rng.random() < 0.1 else False
    elif kind == "cowd":
        grain = rng.choice([1, 1, 8, 128])
        cover = 4096 * grain
        ngt = rng.choice([1, 1, 2, 3]) if not big else rng.randint(100, 1000)
        huge = big and rng.random() < 0.4
        if huge:
            # capacities of 1 TiB and more: the 32-bit capacity, directory-size and next-free-grain fields use their high bit
            grain = 128
            cover = 4096 * grain
            ngt = rng.randint(4096, 8191)
        nsectors = max(1, ngt * cover - rng.choice([0, 0, rng.randrange(cover)]))
        cfg.update(grain=grain, gtes=4096, nsectors=nsectors, zero_gte=False, sparse_gts=huge or rng.random() < 0.5)
        cfg["far"] = rng.choice(["data31", "datatop", "gt31", "all31"]) if (big and rng.random() < 0.7) or rng.random() < 0.1 else False
        cfg["stale_nfg"] = rng.choice([0, 0, 1, 2])
    elif kind == "sesparse":
        grain = 8
        gt_sectors = 64
        cover = 4096 * grain
        if big:
            ngt = rng.choice([1 << 17, (1 << 17) + 5, 1 << 18, 3 << 17, 1 << 20])  # >= 2 TiB: more than 2^32 sectors
        else:
            ngt = rng.choice([1, 1, 2, 3, 4])
        nsectors = max(8, ngt * cover - rng.choice([0, 0, 8 * rng.randrange(4096), 8 * rng.randrange(4096) + rng.choice([0, 1, 7])]))
        cfg.update(grain=grain, gtes=4096, nsectors=nsectors, zero_gte=True, gt_sectors=gt_sectors,
                   fallthrough=rng.random() < 0.4, gt_perm=rng.random() < 0.5, far=big or rng.random() < 0.15)
    else:  # flat
        nsectors = rng.choice([1, 3, 15, 16, 17, 100, 2048, 4099, 8191]) if not big else rng.randint(1 << 32, 1 << 36)
        cfg.update(grain=nsectors, gtes=1, nsectors=nsectors, zero_gte=False)
    return cfg


def caps(cfg) -> dict:
    k = cfg["kind"]
    if k == "flat":
        return {"zero_units": False, "compress": False, "dealloc": False}
    return {"zero_units": bool(cfg.get("zero_gte")), "compress": False, "dealloc": True, "keep_alloc": False}


def descriptor_text(cid: str, parent_cid: str, create_type: str, extents: list[str], parent_hint: str | None = None,
                    ddb: dict | None = None, style: int = 0) -> str:
    lines = ["# Disk DescriptorFile", "version=1", f"CID={cid}", f"parentCID={parent_cid}"]
    if style & 1:
        lines.append('encoding="UTF-8"')
    lines.append(f'createType="{create_type}"')
    if parent_hint is not None:
        lines.append(f'parentFileNameHint="{parent_hint}"')
    lines += ["", "# Extent description"] + extents + ["", "# The Disk Data Base", "#DDB", ""]
    if ddb is None:
        ddb = {"ddb.virtualHWVersion": "4", "ddb.adapterType": "lsilogic", "ddb.geometry.sectors": "63"}
    for k, v in ddb.items():
        lines.append(f'{k} = "{v}"')
    return "\n".join(lines) + "\n"


def render(cfg: dict, layer: Layer, view: View, name: str = "disk.vmdk", parent_cid: str = "ffffffff",
           parent_hint: str | None = None, extent_name: str | None = None) -> Image:
    k = cfg["kind"]
    if k in ("hosted", "stream"):
        return _render_kdmv(cfg, layer, view, name, parent_cid, parent_hint, extent_name)
    if k == "cowd":
        return _render_cowd(cfg, layer, view, name)
    if k == "sesparse":
        return _render_sesparse(cfg, layer, view, name)
    return _render_flat(cfg, layer, view, name)


def _render_flat(cfg, layer, view, name) -> Image:
    img = Image()
    f = SimFile(name)
    put_view(f, 0, view, 0, layer.n)
    f.set_length(layer.n * 512)
    img.files[name] = f
    img.main = name
    img.meta = {"size": layer.n * 512}
    img.info = {"unit_bytes": 512, "kind": "flat"}
    return img


def _render_kdmv(cfg, layer, view, name, parent_cid, parent_hint, extent_name) -> Image:
    img = Image()
    f = SimFile(name)
    stream = cfg["kind"] == "stream"
    grain, gtes = cfg["grain"], cfg["gtes"]
    cap = layer.n
    ngrains = layer.nunits
    ngt = (cap + grain * gtes - 1) // (grain * gtes)
    gt_sectors = (gtes * 4 + 511) // 512
    gd_sectors = (ngt * 4 + 511) // 512
    flags = FLAG_NL | (FLAG_ZERO_GTE if cfg["zero_gte"] else 0)
    need = alloc_units(layer)
    zero_units = {u for u, fl in layer.flags.items() if fl == "zero"} if cfg["zero_gte"] else set()
    # zero-flagged units in a format without zero GTEs cannot occur (caps), so every 'zero' flag is honoured
    desc = b""
    desc_off = desc_size = 0
    if cfg["embed_desc"]:
        ctype = "streamOptimized" if stream else "monolithicSparse"
        text = descriptor_text(cfg["cid"], parent_cid, ctype, [f'RW {cap} SPARSE "{extent_name or name}"'], parent_hint)
        desc = text.encode()
        desc_off = 1
        desc_size = max(cfg["desc_sectors"], (len(desc) + 511) // 512)
    late = bool(desc and cfg.get("desc_late") and not stream)
    pos = 1 + (0 if late else desc_size)  # in sectors
    gts_needed = sorted({u // gtes for u in need} | {u // gtes for u in zero_units})
    if not cfg["sparse_gts"]:
        gts_needed = list(range(ngt))
    gtes_vals = {}
    if not stream:
        flags |= FLAG_RGD if cfg["rgd"] else 0
        rgd_off = 0
        gt_pos_r = {}
        if cfg["rgd"]:
            rgd_off = pos
            pos += gd_sectors
            for t in gts_needed:
                gt_pos_r[t] = pos
                pos += gt_sectors
        gd_off = pos
        pos += gd_sectors
        gt_pos = {}
        far = cfg.get("far") or ""
        near_pos = pos
        if far in ("gt31", "all31"):
            pos = (1 << 31) - gt_sectors * (len(gts_needed) // 2) - 1  # the tables straddle sector 2^31
        for t in gts_needed:
            gt_pos[t] = pos
            pos += gt_sectors
        if far == "gt31":
            pos = near_pos
        if late:  # the embedded descriptor may sit anywhere in the metadata area: here, behind the tables
            desc_off = pos
            pos += desc_size
        overhead = align_up(pos, grain) + cfg["pad_overhead"]
        slots, nslots = assign_slots(need, cfg["alloc"], cfg["alloc_seed"])
        if far in ("data31", "all31"):
            overhead = max(overhead, align_up((1 << 31) - grain * (nslots // 2), grain))  # the grains straddle sector 2^31
        elif far == "datatop":
            overhead = max(overhead, ((1 << 32) - grain * (nslots + 1)) // grain * grain)  # the last grain ends just below 2^32
        place = {u: overhead + slots[u] * grain for u in need}
        assert all(v + grain <= (1 << 32) for v in place.values())
        used = set()
        packed = bool(cfg.get("compressed_grains"))
        if packed:
            flags |= FLAG_COMPRESSED | FLAG_MARKERS
        for u in need:
            a, b = layer.urange(u)
            if packed:
                # compressed grains in the tables-first layout (the compression flag is not tied to the stream-optimised one):
                # each grain slot holds a record - embedded LBA, compressed size, deflate stream - and slack
                raw = view.sectors(a, b)
                raw += bytes((grain - (b - a)) * 512)
                comp = zlib.compress(raw, cfg.get("level", 6))
                if 12 + len(comp) <= grain * 512:
                    f.write(place[u] * 512, struct.pack("<QI", a, len(comp)))
                    f.write_blob(place[u] * 512 + 12, comp)
                    used.add(slots[u])
                    continue
                packed_fail = True  # (cannot happen with pattern data; kept for safety)
            put_view(f, place[u] * 512, view, a, b)
            if b - a < grain:
                put_poison(f, (place[u] + (b - a)) * 512, (grain - (b - a)) * 512, 0xB10C)
            used.add(slots[u])
        for s in range(nslots):
            if s not in used:
                put_poison(f, (overhead + s * grain) * 512, grain * 512, 0x57A1)
        end = overhead + nslots * grain
        for u in need:
            gtes_vals[u] = place[u]
        for u in zero_units:
            gtes_vals[u] = 1
        for t in gts_needed:
            tbl = [gtes_vals.get(t * gtes + i, 0) for i in range(gtes)]
            buf = struct.pack("<%dI" % gtes, *tbl)
            f.write(gt_pos[t] * 512, buf)
            if cfg["rgd"]:
                f.write(gt_pos_r[t] * 512, buf)
        gd = [gt_pos.get(t, 0) for t in range(ngt)]
        f.write(gd_off * 512, struct.pack("<%dI" % ngt, *gd))
        if cfg["rgd"]:
            f.write(rgd_off * 512, struct.pack("<%dI" % ngt, *[gt_pos_r.get(t, 0) for t in range(ngt)]))
        hdr = _kdmv_header(1, flags, cap, grain, desc_off, desc_size, gtes, rgd_off, gd_off, overhead, cfg["dirty"], 0)
        f.write(0, hdr)
        _kdmv_fields(img, name, 0, "vmdk.hdr.")
        f.set_length(max(f.length, end * 512))
        img.field("vmdk.gd", name, gd_off * 512, 4 * ngt, "<", "table")
        for i in range(min(ngt, 3)):
            img.field(f"vmdk.gd[{i}]", name, gd_off * 512 + 4 * i, 4, "<", "int")
        if gts_needed:
            t0 = gts_needed[0]
            for i in range(min(gtes, 3)):
                img.field(f"vmdk.gt{t0}[{i}]", name, gt_pos[t0] * 512 + 4 * i, 4, "<", "int")
        img.meta_bytes = 512 + gd_sectors * 512 * (2 if cfg["rgd"] else 1) + len(gts_needed) * gt_sectors * 512 + desc_size * 512
    else:
        flags |= FLAG_COMPRESSED | FLAG_MARKERS
        overhead = align_up(pos, 128) + cfg["pad_overhead"]
        pos = overhead
        # grains are written in LBA order (it is a stream); each grain table follows its grains
        order = sorted(need)
        gt_pos = {}
        marks = []
        cur_gt = None

        def flush_gt(t):
            nonlocal pos
            tbl = [gtes_vals.get(t * gtes + i, 0) for i in range(gtes)]
            f.write(pos * 512, struct.pack("<QII", gt_sectors, 0, 1).ljust(512, b"\0"))
            pos += 1
            gt_pos[t] = pos
            f.write(pos * 512, struct.pack("<%dI" % gtes, *tbl))
            pos += gt_sectors

        for u in zero_units:
            gtes_vals[u] = 1
        tables = sorted({u // gtes for u in order} | {u // gtes for u in zero_units})
        for t in tables:
            for u in [x for x in order if x // gtes == t]:
                a, b = layer.urange(u)
                raw = view.sectors(a, b)
                if b - a < grain:
                    raw = raw + bytes((grain - (b - a)) * 512)
                comp = zlib.compress(raw, cfg["level"])
                rec = struct.pack("<QI", a, len(comp)) + comp
                f.write(pos * 512, rec[:12])
                f.write_blob(pos * 512 + 12, comp)
                gtes_vals[u] = pos
                used = (len(rec) + 511) // 512
                pad = cfg.get("stream_pad", "tight")
                if pad == "stride":
                    # a record whose deflate stream fills its grain: the next record starts exactly one grain further
                    used = max(used, grain)
                elif pad == "slack":
                    used += (u * 7 + 3) % 4
                pos += used
            flush_gt(t)
        f.write(pos * 512, struct.pack("<QII", gd_sectors, 0, 2).ljust(512, b"\0"))
        pos += 1
        gd_off = pos
        f.write(pos * 512, struct.pack("<%dI" % ngt, *[gt_pos.get(t, 0) for t in range(ngt)]))
        pos += gd_sectors
        f.write(pos * 512, struct.pack("<QII", 1, 0, 3).ljust(512, b"\0"))
        pos += 1
        footer = _kdmv_header(3, flags, cap, grain, desc_off, desc_size, gtes, 0, gd_off, overhead, False, 1)
        f.write(pos * 512, footer)
        _kdmv_fields(img, name, pos * 512, "vmdk.footer.")
        pos += 1
        f.write(pos * 512, bytes(512))  # end-of-stream marker
        pos += 1
        f.set_length(pos * 512)
        hdr = _kdmv_header(3, flags, cap, grain, desc_off, desc_size, gtes, 0, GD_AT_END, overhead, False, 1)
        f.write(0, hdr)
        _kdmv_fields(img, name, 0, "vmdk.hdr.")
        img.field("vmdk.gd", name, gd_off * 512, 4 * ngt, "<", "table")
        for i in range(min(ngt, 3)):
            img.field(f"vmdk.gd[{i}]", name, gd_off * 512 + 4 * i, 4, "<", "int")
        if order:
            gsec = gtes_vals[order[0]]
            img.field("vmdk.grain0.lba", name, gsec * 512, 8, "<", "int")
            img.field("vmdk.grain0.cmp_size", name, gsec * 512 + 8, 4, "<", "size")
        img.meta_bytes = 1024 + gd_sectors * 512 + len(tables) * (gt_sectors + 1) * 512 + desc_size * 512
        img.info["unit_c"] = 512 * 3 + grain * 16
    if desc:
        f.write(desc_off * 512, desc)
    img.files[name] = f
    img.main = name
    img.meta = {"size": cap * 512, "grain_size": grain, "cid": cfg["cid"], "parent_cid": parent_cid,
                "descriptor": desc.decode() if desc else None}
    img.info.update({"unit_bytes": grain * 512, "kind": cfg["kind"], "ngt": ngt, "gtes": gtes_vals})
    return img


def _kdmv_header(version, flags, cap, grain, desc_off, desc_size, gtes, rgd_off, gd_off, overhead, dirty, algo) -> bytes:
    h = struct.pack("<4sIIQQQQIQQQB", b"KDMV", version, flags, cap, grain, desc_off, desc_size, gtes, rgd_off, gd_off,
                    overhead, 1 if dirty else 0)
    h += b"\n \r\n" + struct.pack("<H", algo)
    return h.ljust(512, b"\0")


def _kdmv_fields(img, name, base, prefix):
    for n, off, w, k in [("magic", 0, 4, "magic"), ("version", 4, 4, "version"), ("flags", 8, 4, "flags"),
                         ("capacity", 12, 8, "size"), ("grain_size", 20, 8, "size"), ("descriptor_offset", 28, 8, "offset"),
                         ("descriptor_size", 36, 8, "size"), ("num_grain_table_entries", 44, 4, "count"),
                         ("secondary_grain_directory_offset", 48, 8, "offset"), ("primary_grain_directory_offset", 56, 8, "offset"),
                         ("overhead", 64, 8, "size"), ("compress_algorithm", 77, 2, "int")]:
        img.field(prefix + n, name, base + off, w, "<", k)


def _render_cowd(cfg, layer, view, name) -> Image:
    img = Image()
    f = SimFile(name)
    grain = cfg["grain"]
    cap = layer.n
    assert cap < (1 << 32)
    ngt = (cap + 4096 * grain - 1) // (4096 * grain)
    gd_off = 4
    gd_sectors = (ngt * 4 + 511) // 512
    need = alloc_units(layer)
    gts_needed = sorted({u // 4096 for u in need}) if cfg["sparse_gts"] else list(range(ngt))
    pos = gd_off + gd_sectors
    gt_pos = {}
    far = cfg.get("far") or ""
    near_pos = pos
    if far in ("gt31", "all31"):
        pos = (1 << 31) - 32 * (len(gts_needed) // 2) - 1
    for t in gts_needed:
        gt_pos[t] = pos
        pos += 32  # 4096 entries * 4 bytes
    if far == "gt31":
        pos = near_pos
    slots, nslots = assign_slots(need, cfg["alloc"], cfg["alloc_seed"])
    data = pos
    if far in ("data31", "all31"):
        data = max(data, (1 << 31) - grain * (nslots // 2))
    elif far == "datatop":
        data = max(data, (1 << 32) - grain * (nslots + 1))
    place = {u: data + slots[u] * grain for u in need}
    used = set()
    for u in need:
        a, b = layer.urange(u)
        put_view(f, place[u] * 512, view, a, b)
        used.add(slots[u])
    for s in range(nslots):
        if s not in used:
            put_poison(f, (data + s * grain) * 512, grain * 512, 0x57A1)
    for t in gts_needed:
        tbl = [place.get(t * 4096 + i, 0) for i in range(4096)]
        f.write(gt_pos[t] * 512, struct.pack("<4096I", *tbl))
    f.write(gd_off * 512, struct.pack("<%dI" % ngt, *[gt_pos.get(t, 0) for t in range(ngt)]))
    end = data + nslots * grain
    # next_free_grain is writer bookkeeping: some writers (QEMU) never update it after creation, a host that went down before the
    # header was flushed leaves it behind the real end. Readers address grains through the tables alone.
    nfg = end if not cfg.get("stale_nfg") else (data if cfg["stale_nfg"] == 1 else data + (nslots // 2) * grain)
    hdr = struct.pack("<4sIIIIIII", b"COWD", 1, 3, cap, grain, gd_off, ngt, nfg)
    f.write(0, hdr.ljust(2048, b"\0"))
    for n, off, k in [("magic", 0, "magic"), ("version", 4, "version"), ("flags", 8, "flags"), ("capacity", 12, "size"),
                      ("grain_size", 16, "size"), ("primary_grain_directory_offset", 20, "offset"),
                      ("num_grain_directory_entries", 24, "count"), ("next_free_grain", 28, "int")]:
        img.field("cowd.hdr." + n, name, off, 4, "<", k)
    img.field("cowd.gd", name, gd_off * 512, 4 * ngt, "<", "table")
    img.field("cowd.gd[0]", name, gd_off * 512, 4, "<", "int")
    f.set_length(max(f.length, end * 512, (gd_off + gd_sectors) * 512))
    img.files[name] = f
    img.main = name
    img.meta = {"size": cap * 512, "grain_size": grain}
    img.meta_bytes = 2048 + gd_sectors * 512 + len(gts_needed) * 32 * 512
    img.info = {"unit_bytes": grain * 512, "kind": "cowd", "ngt": ngt}
    return img


def _render_sesparse(cfg, layer, view, name) -> Image:
    img = Image()
    f = SimFile(name)
    grain = 8
    cap = layer.n
    gt_sectors = cfg["gt_sectors"]
    gtes = gt_sectors * 512 // 8
    ngt = (cap + gtes * grain - 1) // (gtes * grain)
    gd_sectors = align_up((ngt * 8 + 511) // 512, 8) or 8
    need = alloc_units(layer)
    zero_units = {u for u, fl in layer.flags.items() if fl == "zero"}
    tables = sorted({u // gtes for u in need} | {u // gtes for u in zero_units})
    # table index assignment (any order)
    import random

    idx = list(range(len(tables)))
    if cfg["gt_perm"]:
        random.Random(cfg["alloc_seed"]).shuffle(idx)
    tindex = {t: idx[i] for i, t in enumerate(tables)}
    vol_off, jh_off, j_off = 1, 2, 2048
    gd_off = 4096
    gt_off = gd_off + gd_sectors
    gt_size = max(len(tables), 1) * gt_sectors
    fb_off = gt_off + gt_size
    bm_off = fb_off + 8
    grains_off = align_up(bm_off + 8, 2048)
    if cfg["far"]:
        grains_off += 1 << 33  # grains beyond 2^32 sectors into the file
    slots, nslots = assign_slots(need, cfg["alloc"], cfg["alloc_seed"])
    far_slot = (1 << 36) if cfg["far"] else 0  # cluster indexes needing the high 12 bits of the entry
    used = set()
    gte = {}
    for i, u in enumerate(need):
        ci = slots[u] + (far_slot if (cfg["far"] and i % 2) else 0)
        a, b = layer.urange(u)
        pos = (grains_off + ci * grain) * 512
        put_view(f, pos, view, a, b)
        if b - a < grain:
            put_poison(f, pos + (b - a) * 512, (grain - (b - a)) * 512, 0xB10C)
        used.add(slots[u])
        gte[u] = 0x3000000000000000 | ((ci & 0xFFF) << 48) | (ci >> 12)
    for s in range(nslots):
        if s not in used:
            put_poison(f, (grains_off + s * grain) * 512, grain * 512, 0x57A1)
    for u in zero_units:
        gte[u] = 0x2000000000000000
    ft = 0x1000000000000000 if cfg["fallthrough"] else 0
    for t in tables:
        tbl = []
        for i in range(gtes):
            u = t * gtes + i
            tbl.append(gte.get(u, ft if (u % 3 == 0) else 0))
        f.write((gt_off + tindex[t] * gt_sectors) * 512, struct.pack("<%dQ" % gtes, *tbl))
    gd = {t: 0x1000000000000000 | tindex[t] for t in tables}
    # the directory is sparse: write only non-zero entries (runs)
    for t in tables:
        f.write(gd_off * 512 + 8 * t, struct.pack("<Q", gd[t]))
    end = grains_off + (max([slots[u] for u in need], default=-1) + 1 + (far_slot if cfg["far"] else 0)) * grain
    hdr = struct.pack("<26Q", 0xCAFEBABE, 0x200000001, cap, grain, gt_sectors, 0, 0, 0, 0, 0, vol_off, 1, jh_off, 2, j_off, 2048,
                      gd_off, gd_sectors, gt_off, gt_size, fb_off, 8, bm_off, 8, grains_off, max(0, end - grains_off))
    f.write(0, hdr.ljust(512, b"\0"))
    f.write(vol_off * 512, struct.pack("<4Q", 0xCAFEBABE, len(tables), 1, 0).ljust(512, b"\0"))
    names = ["magic", "version", "capacity", "grain_size", "grain_table_size", "flags", "reserved1", "reserved2", "reserved3",
             "reserved4", "volatile_header_offset", "volatile_header_size", "journal_header_offset", "journal_header_size",
             "journal_offset", "journal_size", "grain_directory_offset", "grain_directory_size", "grain_tables_offset",
             "grain_tables_size", "free_bitmap_offset", "free_bitmap_size", "backmap_offset", "backmap_size", "grains_offset",
             "grains_size"]
    for i, n in enumerate(names):
        kind = "magic" if n == "magic" else "version" if n == "version" else "offset" if n.endswith("offset") else "size"
        img.field("sesparse.hdr." + n, name, 8 * i, 8, "<", kind)
    if tables:
        t0 = tables[0]
        img.field(f"sesparse.gd[{t0}]", name, gd_off * 512 + 8 * t0, 8, "<", "int")
        img.field("sesparse.gt[0]", name, (gt_off + tindex[t0] * gt_sectors) * 512, 8, "<", "int")
    f.set_length(max(f.length, end * 512, (gd_off + gd_sectors) * 512, grains_off * 512))
    img.files[name] = f
    img.main = name
    img.meta = {"size": cap * 512, "grain_size": grain}
    img.meta_bytes = 512 + gd_sectors * 512 + len(tables) * gt_sectors * 512
    img.info = {"unit_bytes": grain * 512, "kind": "sesparse", "ngt": ngt, "gd_bytes": gd_sectors * 512}
    return img
