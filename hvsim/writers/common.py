"""Helpers shared by the writer stubs. Nothing here (or in any writer) imports dissect.hypervisor."""
from __future__ import annotations

import random

from hvsim.model import POISON_LAYER, Layer, View
from hvsim.simfs import PatSrc, SimFile

ALLOC_MODES = ("seq", "logical", "rev", "perm", "gaps")


def assign_slots(units: list[int], mode: str, seed: int) -> tuple[dict[int, int], int]:
    """Map each unit needing host space to a slot index. Returns (slots, slot_count)."""
    rng = random.Random(seed)
    order = list(units)
    if mode == "logical":
        order.sort()
    elif mode == "rev":
        order.reverse()
    elif mode == "perm":
        rng.shuffle(order)
    slots = {}
    s = 0
    for u in order:
        if mode == "gaps" and rng.random() < 0.4:
            s += rng.randint(1, 3)
        slots[u] = s
        s += 1
    return slots, s


def put_view(f: SimFile, off: int, view: View, s: int, e: int) -> None:
    """Store the guest view of sectors [s, e) at file offset off (zeros stay holes)."""
    shift = getattr(view, "shift", 0)  # extent-relative views keep absolute pattern identity
    for a, b, v in view.segs(s, e):
        if v != "Z":
            f.write_pat(off + (a - s) * 512, v[1], v[2], a + shift, b - a)


def put_poison(f: SimFile, off: int, nbytes: int, tag: int) -> None:
    """Host bytes that no correct reader may ever return (stale or undefined data)."""
    if nbytes > 0:
        assert off % 512 == 0
        f.write_src(off, nbytes, PatSrc(POISON_LAYER, tag & 0xFFFFFFFF, off // 512))


def view_bytes(view: View, s: int, e: int) -> bytes:
    return view.sectors(s, e)


def alloc_units(layer: Layer) -> list[int]:
    """Units that need host space, in first-allocation order."""
    out = []
    for u in layer.touch:
        st = layer.ustate(u)
        if st in ("data", "zalloc", "comp", "forced"):
            out.append(u)
    return out


def align_up(x: int, a: int) -> int:
    return (x + a - 1) // a * a
