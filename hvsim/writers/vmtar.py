"""Stub producer of visor tar (vmtar) archives: ustar-like headers with the 'visor  ' magic whose file data lives out of
line, at the offset named in the header, after all headers. Optionally gzip- or xz-wrapped."""
from __future__ import annotations

import gzip
import io
import lzma
import struct
import tarfile


def _header(name: str, size: int, offset: int, typ: bytes = tarfile.REGTYPE, visor: bool = True, mode=0o644) -> bytes:
    ti = tarfile.TarInfo(name)
    ti.size = size
    ti.type = typ
    ti.mode = mode
    ti.mtime = 1_600_000_000
    buf = bytearray(ti.tobuf(format=tarfile.USTAR_FORMAT))[:512]
    if visor:
        buf[257:264] = b"visor  "
        buf[264] = 0
        buf[496:500] = struct.pack("<I", offset)
        buf[504:508] = struct.pack("<I", (size + 4095) // 4096 if name.endswith(".bin") else 0)
        buf[508:512] = struct.pack("<I", 0)
    buf[148:156] = b" " * 8
    chk = sum(buf)
    buf[148:156] = b"%06o\0 " % chk
    return bytes(buf)


def gen_cfg(rng, tier: str) -> dict:
    n = rng.choice([0, 1, 2, 3, 5, 9])
    members = []
    for i in range(n):
        r = rng.random()
        if r < 0.15:
            members.append({"name": "dir%d/" % i, "kind": "dir"})
        else:
            size = rng.choice([0, 1, 511, 512, 513, 4096, 70000, rng.randrange(1, 300000)])
            members.append({"name": rng.choice(["bin/tool%d.bin", "etc/conf%d", "usr/lib/ünï%d.so", "a b/%d"]) % i, "kind": "file", "size": size,
                            "fill": rng.randrange(1, 256)})
    # one in five archives carries a member larger than the spooling / buffering thresholds libraries commonly use
    if rng.random() < 0.2:
        members.insert(rng.randrange(len(members) + 1), {"name": "lib/big.bin", "kind": "file", "size": rng.choice([33, 40, 65]) << 20, "fill": 0})
    return {"members": members, "wrap": rng.choice(["gz", "gz", "gz", "none", "xz"]), "visor": rng.random() < 0.85, "page_align": rng.random() < 0.5}


def _content(m) -> bytes:
    if m["fill"] == 0:
        return bytes(m["size"])
    unit = bytes((m["fill"] + j) & 0xFF for j in range(251))
    return (unit * (m["size"] // 251 + 1))[: m["size"]]


def build(cfg) -> tuple[bytes, dict]:
    """Returns (archive bytes, {member name: content or None for directories})."""
    members = cfg["members"]
    expect = {}
    if cfg["visor"]:
        hdr_len = 512 * (len(members) + 2)
        pos = hdr_len
        heads, blobs = [], []
        for m in members:
            if m["kind"] == "dir":
                heads.append(_header(m["name"], 0, 0, tarfile.DIRTYPE, True, 0o755))
                expect[m["name"].rstrip("/")] = None
                continue
            data = _content(m)
            if cfg["page_align"]:
                pos = (pos + 4095) & ~4095
            off = pos if m["size"] else 0
            heads.append(_header(m["name"], m["size"], off))
            if m["size"]:
                blobs.append((pos, data))
                pos += (len(data) + 511) & ~511
            expect[m["name"]] = data
        raw = bytearray(pos)
        raw[: 512 * len(heads)] = b"".join(heads)
        for p, dta in blobs:
            raw[p:p + len(dta)] = dta
        raw = bytes(raw)
    else:
        bio = io.BytesIO()
        with tarfile.open(fileobj=bio, mode="w", format=tarfile.USTAR_FORMAT) as t:
            for m in members:
                if m["kind"] == "dir":
                    ti = tarfile.TarInfo(m["name"].rstrip("/"))
                    ti.type = tarfile.DIRTYPE
                    t.addfile(ti)
                    expect[m["name"].rstrip("/")] = None
                else:
                    data = _content(m)
                    ti = tarfile.TarInfo(m["name"])
                    ti.size = len(data)
                    t.addfile(ti, io.BytesIO(data))
                    expect[m["name"]] = data
        raw = bio.getvalue()
    if cfg["wrap"] == "gz":
        raw = gzip.compress(raw, 1, mtime=0)
    elif cfg["wrap"] == "xz":
        raw = lzma.compress(raw, preset=0)
    return raw, expect
