"""VHD (fixed / dynamic) writer stub, from the Microsoft VHD specification 1.0. struct only, big-endian."""
from __future__ import annotations

import random
import struct

from hvsim.model import Layer, View
from hvsim.simfs import SimFile
from hvsim.world import Image
from hvsim.writers.common import align_up, alloc_units, assign_slots, put_poison, put_view

CAPS = {"zero_units": False, "compress": False, "dealloc": True, "keep_alloc": False}


def _checksum(buf: bytes) -> int:
    return (~sum(buf)) & 0xFFFFFFFF


def footer(size: int, disk_type: int, data_offset: int, uid: bytes, legacy: bool, original: int | None = None) -> bytes:
    cyl = min(65535, max(1, size // 512 // (16 * 63)))
    geom = (cyl << 16) | (16 << 8) | 63
    feat = 0 if legacy else 2
    body = struct.pack(">8sIIQI4sI4sQQIII16sB", b"conectix", feat, 0x00010000, data_offset, 0x2A000000, b"hvsm", 0x00010000,
                       b"Wi2k", size if original is None else original, size, geom, disk_type, 0, uid, 0)
    body = body.ljust(512, b"\0")
    c = _checksum(body)
    body = body[:64] + struct.pack(">I", c) + body[68:]
    return body[:511] if legacy else body


FOOTER_FIELDS = [("cookie", 0, 8, "magic"), ("features", 8, 4, "flags"), ("version", 12, 4, "version"),
                 ("data_offset", 16, 8, "offset"), ("original_size", 40, 8, "size"), ("current_size", 48, 8, "size"),
                 ("disk_geometry", 56, 4, "int"), ("disk_type", 60, 4, "int"), ("checksum", 64, 4, "int")]


def gen_cfg(rng, tier: str, big: bool = False) -> dict:
    fixed = rng.random() < 0.15 and not big
    if big:
        bs = rng.choice([1 << 19, 1 << 21])
        nblocks = rng.randint(5000, 900000)
    else:
        small = [4096, 8192, 16384, 65536, 1 << 19, 1 << 21]
        bs = rng.choice(small * 2 + [512, 1024, 2048] if tier == "quick" else small + [512, 1024, 2048, 32768, 1 << 20, 1 << 22])
        nblocks = rng.choice([1, 2, 3, 4, 5, 8, 9, 17])
    unit = bs // 512
    nsectors = nblocks * unit
    if rng.random() < 0.35 and unit > 1:
        nsectors -= rng.randint(1, unit - 1)
    if fixed:
        nsectors = rng.choice([1, 3, 16, 17, 100, 2048, 4099])
    return {
        "fixed": fixed, "block": bs, "nsectors": nsectors, "legacy": rng.random() < 0.15,
        "alloc": rng.choice(["seq", "logical", "rev", "perm", "gaps"]), "alloc_seed": rng.getrandbits(32),
        "hdr_off": rng.choice([512, 512, 1024, 4096, 512 * rng.randint(1, 40)]),
        "bat_gap": rng.choice([0, 0, 512, 512 * rng.randint(0, 30)]),
        "bat_after_data": rng.random() < 0.15,
        # table_offset is an absolute byte offset: nothing makes it a multiple of the sector size
        "bat_skew": rng.choice([0, 0, 0, 4, 100, 258]), "resized": rng.choice([0, 0, 1, 2]),
        "data_gap": rng.choice([0, 0, 512, 512 * rng.randint(0, 64)]),
        "uid_seed": rng.getrandbits(32),
        "bitmap": rng.choice(["ones", "written"]),
        "far": big or rng.random() < 0.05,
        # block starts are 32-bit sector numbers: the file can reach 2 TiB; entries >= 0x80000000 need offsets >= 1 TiB
        "far_off": rng.choice([1 << 32, 1 << 40, (1 << 40) + (1 << 39), (1 << 40) + (3 << 38)]),
    }


def _orig(cfg, size: int) -> int:
    """original_size: the size at creation time; differs from current_size once the disk has been resized."""
    how = cfg.get("resized", 0)
    return size if not how else max(512, size // 2) if how == 1 else size + (3 << 20)


def render(cfg: dict, layer: Layer, view: View) -> Image:
    img = Image()
    f = SimFile("disk.vhd")
    size = layer.n * 512
    uid = bytes(random.Random(cfg["uid_seed"]).getrandbits(8) for _ in range(16))
    legacy = cfg["legacy"]
    name = "disk.vhd"
    if cfg["fixed"]:
        put_view(f, 0, view, 0, layer.n)
        ft = footer(size, 2, 0xFFFFFFFFFFFFFFFF, uid, legacy, _orig(cfg, size))
        f.write(size, ft)
        f.set_length(size + len(ft))
        foff = size
        img.meta = {"size": size, "uid": uid, "disk_type": 2, "original_size": _orig(cfg, size)}
        img.meta_bytes = 512
    else:
        bs = cfg["block"]
        spb = bs // 512
        nblocks = layer.nunits
        bm_sectors = ((spb + 7) // 8 + 511) // 512  # bitmap padded to a sector boundary
        need = alloc_units(layer)
        slots, nslots = assign_slots(need, cfg["alloc"], cfg["alloc_seed"])
        hdr_off = cfg["hdr_off"]
        bat_bytes = align_up(4 * nblocks, 512)
        stride = (bm_sectors + spb) * 512
        if cfg["bat_after_data"]:
            data_off = hdr_off + 1024 + cfg["data_gap"]
            if cfg["far"]:
                data_off += cfg.get("far_off", 1 << 32)
            bat_off = data_off + nslots * stride + cfg["bat_gap"] + cfg.get("bat_skew", 0)
            end = bat_off + bat_bytes
        else:
            bat_off = hdr_off + 1024 + cfg["bat_gap"] + cfg.get("bat_skew", 0)
            data_off = align_up(bat_off + bat_bytes + cfg["data_gap"], 512)
            if cfg["far"]:
                data_off += cfg.get("far_off", 1 << 32)
            end = data_off + nslots * stride
        # BAT entries are 32-bit sector numbers: keep every block start below 2^32 sectors
        assert (data_off + nslots * stride) // 512 < 0xFFFFFFFF
        ft = footer(size, 3, hdr_off, uid, False, _orig(cfg, size))
        f.write(0, ft)
        dyn = struct.pack(">8sQQIIII16sII512s", b"cxsparse", 0xFFFFFFFFFFFFFFFF, bat_off, 0x00010000, nblocks, bs, 0,
                          bytes(16), 0, 0, bytes(512))
        dyn = dyn.ljust(1024, b"\0")
        dyn = dyn[:36] + struct.pack(">I", _checksum(dyn)) + dyn[40:]
        f.write(hdr_off, dyn)
        for n, off, w, k in [("cookie", 0, 8, "magic"), ("data_offset", 8, 8, "offset"), ("table_offset", 16, 8, "offset"),
                             ("header_version", 24, 4, "version"), ("max_table_entries", 28, 4, "count"),
                             ("block_size", 32, 4, "size"), ("checksum", 36, 4, "int")]:
            img.field("vhd.dyn." + n, name, hdr_off + off, w, ">", k)
        bat = [0xFFFFFFFF] * nblocks
        for u in need:
            bat[u] = (data_off + slots[u] * stride) // 512
        f.write(bat_off, struct.pack(">%dI" % nblocks, *bat).ljust(bat_bytes, b"\xff"))
        img.field("vhd.bat", name, bat_off, 4 * nblocks, ">", "table")
        for i in range(min(nblocks, 4)):
            img.field(f"vhd.bat[{i}]", name, bat_off + 4 * i, 4, ">", "int")
        used = set()
        for u in need:
            a, b = layer.urange(u)
            pos = data_off + slots[u] * stride
            bm = bytearray(bm_sectors * 512)
            if cfg["bitmap"] == "ones":
                for i in range((spb + 7) // 8):
                    bm[i] = 0xFF
            else:
                for sa, sb, v in layer.own.segs(a, b):
                    if v is not None:
                        for s in range(sa - a, sb - a):
                            bm[s >> 3] |= 0x80 >> (s & 7)
            f.write_blob(pos, bytes(bm))  # a bit array, not a structure with fields
            put_view(f, pos + bm_sectors * 512, view, a, b)
            if b - a < spb:
                put_poison(f, pos + (bm_sectors + (b - a)) * 512, (spb - (b - a)) * 512, 0xB10C)
            used.add(slots[u])
        for s in range(nslots):
            if s not in used:
                put_poison(f, data_off + s * stride, stride, 0x57A1)
        ft_end = footer(size, 3, hdr_off, uid, legacy, _orig(cfg, size))
        f.write(end, ft_end)
        f.set_length(end + len(ft_end))
        foff = end
        img.meta = {"size": size, "uid": uid, "disk_type": 3, "original_size": _orig(cfg, size), "block_size": bs, "table_offset": bat_off,
                    "max_table_entries": nblocks}
        img.meta_bytes = 512 + 1024 + 4 * nblocks + 512
        img.info = {"bat": bat, "unit_bytes": bs, "stride": stride}
    for n, off, w, k in FOOTER_FIELDS:
        img.field("vhd.footer." + n, name, foff + off, w, ">", k)
    img.files[name] = f
    img.main = name
    return img
