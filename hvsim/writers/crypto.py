"""Stub sealers: VMware key safe / encrypted VMX, ESXi envelope, keystore text.
Written from the references the reader cites plus the repo's fixtures (see notes/format-crib.md); uses PyCryptodome
primitives (AES-CBC, AES-GCM) and hashlib/hmac only - nothing from dissect.hypervisor."""
from __future__ import annotations

import base64
import hashlib
import hmac
import struct

from Crypto.Cipher import AES

CIPHERS = {"AES-128": 16, "AES-192": 24, "AES-256": 32}
MACS = {"HMAC-SHA-1": ("sha1", 20), "HMAC-SHA-1-128": ("sha1", 16), "HMAC-SHA-256": ("sha256", 32)}
KDFS = {"PBKDF2-HMAC-SHA-1": "sha1", "PBKDF2-HMAC-SHA-256": "sha256"}


def vq(s: str, upper: bool = False) -> str:
    """VMware-style URL quoting: everything but ASCII letters and digits is escaped."""
    out = []
    for ch in s.encode():
        c = chr(ch)
        if c.isalnum() and ch < 128:
            out.append(c)
        else:
            out.append(("%%%02X" if upper else "%%%02x") % ch)
    return "".join(out)


def dq(s: str, upper: bool = False, style: str = "full") -> str:
    """Quoting of a value inside a crypto dictionary (k=v:k=v). 'vmware' escapes only what the dictionary syntax needs -
    '%', '=', ':' - the way the products write it (tests/data/encrypted.vmx: salt=LKX/ScQY...%3d%3d, '/' and '+' literal)."""
    if style == "full":
        return vq(s, upper)
    out = []
    for c in s:
        out.append((("%%%02X" if upper else "%%%02x") % ord(c)) if c in "%=:" else c)
    return "".join(out)


def pkcs7(data: bytes) -> bytes:
    n = 16 - len(data) % 16
    return data + bytes([n]) * n


def seal_cbc_hmac(key: bytes, iv: bytes, plaintext: bytes, mac_name: str) -> bytes:
    hname, n = MACS[mac_name]
    ct = AES.new(key, AES.MODE_CBC, iv=iv).encrypt(pkcs7(plaintext))
    tag = hmac.new(key, plaintext, hname).digest()[:n]
    return iv + ct + tag


def keysafe_pair(passphrase: str, kdf: str, cipher: str, rounds: int, salt: bytes, mac_name: str, data_key: bytes, data_cipher: str,
                 phrase_id: bytes, iv: bytes, upper: bool = False, dict_style: str = "full") -> tuple[str, bytes]:
    """One pair/(phrase/...,mac,blob) member. Returns (text, raw blob)."""
    wrap_key = hashlib.pbkdf2_hmac(KDFS[kdf], passphrase.encode(), salt, rounds, CIPHERS[cipher])
    inner = f"type=key:cipher={data_cipher}:key={dq(base64.b64encode(data_key).decode(), upper, dict_style)}".encode()
    blob = seal_cbc_hmac(wrap_key, iv, inner, mac_name)
    cdict = f"pass2key={kdf}:cipher={cipher}:rounds={rounds}:salt={dq(base64.b64encode(salt).decode(), upper, dict_style)}"
    text = "pair/(phrase/%s/%s,%s,%s)" % (vq(base64.b64encode(phrase_id).decode(), upper), vq(cdict, upper), vq(mac_name, upper),
                                          vq(base64.b64encode(blob).decode(), upper))
    return text, blob


def pair_text_from_blob(pair_text: str, blob: bytes, upper: bool = False) -> str:
    """Re-encode a pair member with a (tampered) blob."""
    head = pair_text.rsplit(",", 1)[0]
    return head + "," + vq(base64.b64encode(blob).decode(), upper) + ")"


def keysafe(pairs: list[str]) -> str:
    return "vmware:key/list/(" + ",".join(pairs) + ")"


def seal_config(data_key: bytes, iv: bytes, text: str, mac_name: str) -> bytes:
    return seal_cbc_hmac(data_key, iv, text.encode(), mac_name)


def vmx_text(outer: list[tuple[str, str]], keysafe_text: str, data_blob: bytes) -> str:
    lines = [f'{k} = "{v}"' for k, v in outer]
    lines.append(f'encryption.keySafe = "{keysafe_text}"')
    lines.append(f'encryption.data = "{base64.b64encode(data_blob).decode()}"')
    return "\n".join(lines) + "\n"


# ---------------------------------------------------------------------------------------------------------
# ESXi envelope
# ---------------------------------------------------------------------------------------------------------

T_STRING, T_BYTES = 0x0B, 0x0C
SCALARS = {0x1: "<B", 0x2: "<H", 0x3: "<I", 0x4: "<Q", 0x5: "<b", 0x6: "<h", 0x7: "<i", 0x8: "<q", 0x9: "<f", 0xA: "<d"}
BLOCK = 4096


def pack_attributes(attrs: list[tuple[str, int, int, object]]) -> bytes:
    """attrs: (name, type, flag, value)."""
    out = b""
    for name, typ, flag, value in attrs:
        out += struct.pack("<BBH", typ, flag, 0) + name.encode() + b"\0"
        if typ == T_STRING:
            out += value.encode() + b"\0"
        elif typ == T_BYTES:
            out += struct.pack("<Q", len(value)) + value
        else:
            out += struct.pack(SCALARS[typ], value)
    return out + b"\0\0\0\0"


def envelope_header(attrs) -> bytes:
    body = pack_attributes(attrs)
    total = 512 + len(body)
    total += -total % BLOCK
    hdr = b"DataTransformEnvelope".ljust(504, b"\0") + struct.pack("<II", total - 512, 2)
    return (hdr + body).ljust(total, b"\0")


def seal_envelope(payload: bytes, key: bytes, iv: bytes, key_info: str, extra_attrs: list, order: list[int], aad: bytes | None,
                  padding: int | None = None, filler: int = 0xA5, fill_to: int = 0) -> tuple[bytes, dict]:
    cipher_name = "AES-256-GCM"
    base = [("vmware.iv", T_BYTES, 0, iv), ("vmware.keyInfo", T_STRING, 0, key_info), ("vmware.cipherName", T_STRING, 0, cipher_name),
            ("vmware.keyHash", T_BYTES, 0, hashlib.sha256(cipher_name.encode() + key).digest())]
    attrs = base + list(extra_attrs)
    attrs = [attrs[i] for i in order] if order else attrs
    if fill_to:
        # one more attribute sized so that header struct + attribute records + terminator end exactly `fill_to` bytes into the file
        name = "vmware.filler"
        need = fill_to - 512 - len(pack_attributes(attrs)) - (4 + len(name) + 1 + 8)
        if need >= 0:
            attrs = attrs + [(name, T_BYTES, 0, bytes((i * 7 + 1) & 0xFF for i in range(need)))]
    header = envelope_header(attrs)
    if padding is None:
        padding = -len(payload) % BLOCK
    footer = bytes(BLOCK - 512) + b"DataTransformCryptoFooter".ljust(504, b"\0") + struct.pack("<II", padding, 2)
    plain = payload + bytes([filler]) * padding + footer
    c = AES.new(key, AES.MODE_GCM, nonce=iv)
    c.update(header)
    if aad:
        c.update(aad)
    ct, tag = c.encrypt_and_digest(plain)
    aead = b"DataTransformAeadFooter".ljust(32, b"\0") + tag.ljust(4056, b"\0") + struct.pack("<II", 16, 1)
    blob = header + ct + aead
    layout = {"header_len": len(header), "ct_off": len(header), "ct_len": len(ct), "tag_off": len(header) + len(ct) + 32,
              "tagsize_off": len(blob) - 8, "footver_off": len(blob) - 4, "attrs": attrs, "attr_span": (512, 512 + len(pack_attributes(attrs)) - 4)}
    return blob, layout


def keystore_text(key_id: bytes, data1: bytes, data2: bytes, style: int = 0) -> str:
    def q(b):
        s = base64.b64encode(b).decode()
        if style & 16:
            # rewritten by a standard percent-encoder: everything outside the unreserved set, upper- or lower-case hex
            from urllib.parse import quote

            e = quote(s, safe="")
            return e if style & 32 else "".join(ch.lower() if i and e[i - 1] == "%" or i > 1 and e[i - 2] == "%" else ch for i, ch in enumerate(e))
        return s.replace("=", "%3d") if style & 1 == 0 else s.replace("=", "%3D").replace("+", "%2b") if style & 2 else s

    enc = f"keyId={q(key_id)}:data1={q(data1)}:data2={q(data2)}:version=1"
    lines = ['.encoding = "UTF-8"', 'includeKeyCache = "FALSE"', 'mode = "NONE"', f'ConfigEncData = "{enc}"']
    if style & 4:
        lines.insert(1, "# a comment")
        lines.insert(3, "")
    if style & 8:
        lines = [lines[0]] + lines[1:][::-1]
    return "\n".join(lines) + "\n"


def keystore_key(data1: bytes, data2: bytes) -> bytes:
    salt = b"This is obfuscation, not encryption. If you want encryption, use TPM."
    return hashlib.pbkdf2_hmac("sha256", data1 + salt, data2, 100000)
