"""Parallels HDS (expanding image) + .hdd directory (DiskDescriptor.xml) writer stub. struct only."""
from __future__ import annotations

import random
import struct
import uuid

from hvsim.model import Layer, View
from hvsim.simfs import SimFile
from hvsim.world import Image
from hvsim.writers.common import align_up, alloc_units, assign_slots, put_poison, put_view

SIG_V1 = b"WithoutFreeSpace"
SIG_V2 = b"WithouFreSpacExt"
IN_USE = 0x746F6E59
CAPS = {"zero_units": False, "compress": False, "dealloc": True, "keep_alloc": False}
NULL_GUID = "{00000000-0000-0000-0000-000000000000}"
DEFAULT_TOP = "{5fbaabe3-6958-40ff-92a7-860e329aab41}"


def gen_cfg(rng, tier: str, big: bool = False) -> dict:
    ver = rng.choice([1, 2])
    cl = rng.choice([1, 2, 8, 16, 32, 128, 2048, 3, 63, 96, 17] if tier == "quick" else [1, 2, 3, 8, 16, 17, 32, 63, 64, 96, 128, 255, 256, 2048, 4096])
    if big:
        cl = rng.choice([2048, 4096])
        if ver == 2:
            ncl = rng.randint(1 << 14, 1 << 18) if rng.random() < 0.85 else (1 << 20) + rng.randint(1, 4000)
        else:
            ncl = rng.randint(1 << 10, min(1 << 18, (1 << 32) // cl - 1))
    else:
        ncl = rng.choice([1, 2, 3, 4, 5, 6, 8, 12, 20])
    nsectors = ncl * cl
    if rng.random() < 0.25 and cl > 1:
        nsectors -= rng.randint(1, cl - 1)
    return {
        "ver": ver,
        "cluster": cl,
        "nsectors": nsectors,
        "alloc": rng.choice(["seq", "seq", "logical", "rev", "perm", "gaps"]),
        "alloc_seed": rng.getrandbits(32),
        # where the data area starts, in clusters after the BAT (0 = right after metadata, rounded up to a cluster)
        "data_lead": rng.choice([0, 0, 0, 1, 2]),
        "in_use": rng.random() < 0.2, "fbo_zero": rng.random() < 0.3, "v1_tight": ver == 1 and rng.random() < 0.3,
        # version 1 stores a 32-bit size; the four bytes after it are not part of the header ("Unused" in the SDK layout,
        # masked off by QEMU) and hold whatever the producer left there
        "v1_unused": rng.choice([0, 0, 0, 1, 0xDEADBEEF]) if ver == 1 else 0,
        # version 1 addresses clusters by sector: the data area may start on any sector (classic images: right behind the table)
        "v1_skew": rng.choice([0, 0, 1, 1, 5]) if ver == 1 and cl > 1 else 0,
    }


def unit_sectors(cfg) -> int:
    return cfg["cluster"]


def render(cfg: dict, layer: Layer, view: View, parent: dict | None = None, name: str = "disk.hds") -> Image:
    img = Image()
    f = SimFile(name)
    cl = cfg["cluster"]
    ncl = layer.nunits
    need = alloc_units(layer)
    slots, nslots = assign_slots(need, cfg["alloc"], cfg["alloc_seed"])
    meta_sectors = (64 + 4 * ncl + 511) // 512
    first_cluster = (meta_sectors + cl - 1) // cl + cfg["data_lead"]  # data area start, in clusters
    ver = cfg["ver"]
    skew = cfg.get("v1_skew", 0) % cl if ver == 1 else 0
    if ver == 1 and cfg.get("v1_tight"):
        # the classic layout: clusters start on the first sector behind the table, wherever that is
        skew = meta_sectors - first_cluster * cl
    data_start = first_cluster * cl + skew  # sectors
    if ver == 1:
        assert layer.n < (1 << 32)
        size_field = struct.pack("<II", layer.n, cfg.get("v1_unused", 0))
    else:
        size_field = struct.pack("<Q", layer.n)
    hdr = struct.pack("<16sIIIII", SIG_V1 if ver == 1 else SIG_V2, 2, 16, max(1, layer.n // (16 * 32)), cl, ncl)
    fbo = 0 if cfg.get("fbo_zero") else data_start  # old-style images leave m_FirstBlockOffset at 0: the table alone says where clusters are
    hdr += size_field + struct.pack("<IIIQ", IN_USE if cfg["in_use"] else 0, fbo, 0, 0)
    assert len(hdr) == 64
    f.write(0, hdr)
    for n, off, w, k in [("m_Sig", 0, 16, "magic"), ("m_Type", 16, 4, "int"), ("m_Heads", 20, 4, "int"),
                         ("m_Cylinders", 24, 4, "int"), ("m_Sectors", 28, 4, "size"), ("m_Size", 32, 4, "count"),
                         ("m_SizeInSectors", 36, 8 if ver == 2 else 4, "size"), ("m_DiskInUse", 44, 4, "int"),
                         ("m_FirstBlockOffset", 48, 4, "offset"), ("m_Flags", 52, 4, "flags"),
                         ("m_FormatExtensionOffset", 56, 8, "offset")]:
        img.field("hds.hdr." + n, name, off, w, "<", k)
    bat = [0] * ncl
    for u in need:
        c = first_cluster + slots[u]
        bat[u] = c * cl + skew if ver == 1 else c
    f.write(64, struct.pack("<%dI" % ncl, *bat))
    img.field("hds.bat", name, 64, 4 * ncl, "<", "table")
    for i in range(min(ncl, 4)):
        img.field(f"hds.bat[{i}]", name, 64 + 4 * i, 4, "<", "int")
    used = set()
    for u in need:
        a, b = layer.urange(u)
        pos = ((first_cluster + slots[u]) * cl + skew) * 512
        put_view(f, pos, view, a, b)
        if b - a < cl:
            put_poison(f, pos + (b - a) * 512, (cl - (b - a)) * 512, 0xB10C)
        used.add(slots[u])
    for s in range(nslots):
        if s not in used:
            put_poison(f, ((first_cluster + s) * cl + skew) * 512, cl * 512, 0x57A1)
    f.set_length(max(f.length, ((first_cluster + nslots) * cl + skew) * 512, 64 + 4 * ncl))
    img.files[name] = f
    img.main = name
    img.meta = {"size": layer.n * 512, "cluster_size": cl * 512, "data_offset": fbo, "in_use": cfg["in_use"]}
    img.meta_bytes = 64 + 4 * ncl
    img.info = {"bat": bat, "unit_bytes": cl * 512, "first_cluster": first_cluster}
    return img


def render_plain(layer: Layer, view: View, name: str = "disk.hds") -> Image:
    """Plain image: the file bytes are the guest bytes."""
    img = Image()
    f = SimFile(name)
    put_view(f, 0, view, 0, layer.n)
    f.set_length(layer.n * 512)
    img.files[name] = f
    img.main = name
    img.meta = {"size": layer.n * 512}
    return img


def guid_str(seed: int) -> str:
    r = random.Random(seed)
    return "{" + str(uuid.UUID(int=r.getrandbits(128))) + "}"


def descriptor_xml(storages: list[dict], shots: list[tuple[str, str]], top_guid: str | None = None,
                   disk_sectors: int = 0, extra_ws: bool = False) -> str:
    """storages: [{start,end,blocksize,images:[(guid,type,file)]}]; shots: [(guid,parent)]."""
    ind = "    "
    out = ["<?xml version='1.0' encoding='UTF-8'?>", '<Parallels_disk_image Version="1.0">', ind + "<Disk_Parameters>",
           ind * 2 + f"<Disk_size>{disk_sectors}</Disk_size>", ind * 2 + "<LogicSectorSize>512</LogicSectorSize>",
           ind * 2 + "<Name>hvsim</Name>", ind + "</Disk_Parameters>", ind + "<StorageData>"]
    for st in storages:
        out.append(ind * 2 + "<Storage>")
        out.append(ind * 3 + f"<Start>{st['start']}</Start>")
        out.append(ind * 3 + f"<End>{st['end']}</End>")
        out.append(ind * 3 + f"<Blocksize>{st['blocksize']}</Blocksize>")
        for g, t, fn in st["images"]:
            out.append(ind * 3 + "<Image>")
            out.append(ind * 4 + f"<GUID>{g}</GUID>")
            out.append(ind * 4 + f"<Type>{t}</Type>")
            out.append(ind * 4 + f"<File>{_esc(fn)}</File>")
            out.append(ind * 3 + "</Image>")
        out.append(ind * 2 + "</Storage>")
    out.append(ind + "</StorageData>")
    out.append(ind + "<Snapshots>")
    if top_guid is not None:
        out.append(ind * 2 + f"<TopGUID>{top_guid}</TopGUID>")
    for g, p in shots:
        out.append(ind * 2 + "<Shot>")
        out.append(ind * 3 + f"<GUID>{g}</GUID>")
        out.append(ind * 3 + f"<ParentGUID>{p}</ParentGUID>")
        out.append(ind * 2 + "</Shot>")
    out.append(ind + "</Snapshots>")
    out.append("</Parallels_disk_image>")
    return "\n".join(out) + "\n"


def _esc(s: str) -> str:
    return s.replace("&", "&amp;").replace("<", "&lt;").replace(">", "&gt;")
