"""Hyper-V VMCX/VMRS store writer stub.  No public specification exists: the layout follows the structures the
reader cites (VmDataStore.dll) and is anchored on the repo's two fixtures (see notes/format-crib.md; the decoder at
the bottom of this file recovers the documented VMRS tree without using the reader).  struct only.

The stub executes a history of store operations as a sequence of *device writes* (copy-on-write key tables: new
table object with the same index and sequence+1, then registration in the object table - the commit point - then
optional release of the old object), so a history can be cut between any two writes."""
from __future__ import annotations

import copy
import struct

SIG_HEADER, SIG_REPLAY, SIG_OBJTABLE, SIG_KEYTABLE = 0x01282014, 0x01110003, 0x01110001, 0x0002
OBJ_OBJTABLE, OBJ_KEYTABLE, OBJ_FILE, OBJ_FREE, OBJ_REPLAY = 1, 2, 3, 4, 6
T_FREE, T_INT, T_UINT, T_DOUBLE, T_STRING, T_ARRAY, T_BOOL, T_NODE = 1, 3, 4, 5, 6, 7, 8, 9
TYPE_CODE = {"int": T_INT, "uint": T_UINT, "double": T_DOUBLE, "string": T_STRING, "array": T_ARRAY, "bool": T_BOOL, "node": T_NODE}
ALIGN = 4096
OBJ_ENTRIES = 227


def header_bytes(seq: int, version: int = 0x400, sig: int = SIG_HEADER, replay_off: int = 0x8000) -> bytes:
    return struct.pack("<IIHIQIQQI", sig, 0, seq, version, 0, ALIGN, replay_off, 0x4000, ALIGN)


def value_bytes(typ: str, value) -> bytes:
    if typ == "int":
        return struct.pack("<q", value)
    if typ == "uint":
        return struct.pack("<Q", value)
    if typ == "double":
        return struct.pack("<d", value)
    if typ == "bool":
        return struct.pack("<I", 1 if value else 0)
    if typ == "string":
        b = value.encode("utf-16-le")
        return b
    if typ == "array":
        return bytes(value)
    if typ == "node":
        return bytes(8) + struct.pack("<I", 0)
    raise ValueError(typ)


class Store:
    """In-memory image of the store plus the log of device writes that produced it."""

    def __init__(self, rng, cfg: dict):
        self.rng = rng
        self.cfg = cfg
        self.writes: list[tuple[int, bytes]] = []  # device writes in order
        self.commits: list[tuple[int, dict]] = []  # (number of writes done, tree after it)
        self.tree: dict = {}
        gap = cfg.get("stale_gap", 1)
        gap = gap if 0 < gap <= cfg.get("seq0", 3) else 1
        self.hdr_seq = [cfg.get("seq0", 3), cfg.get("seq0", 3) - gap]  # the inactive copy may be arbitrarily far behind
        self.obj = [[0, 0, 0, 0] for _ in range(OBJ_ENTRIES)]  # type, offset, size, allocated
        self.freed: list[tuple[int, int]] = []
        self.reused = 0
        self.obj2: list | None = None  # entries of an additional object table (registered in the first one), if any
        self.obj2_off = None
        self.tables: dict[int, dict] = {}  # index -> {"seq","off","size","buf","end","slot"}
        self.loc: dict[tuple, tuple[int, int, int]] = {}  # path -> (table index, entry offset, entry size)
        self.next_off = 0x3000
        self.ins = 1
        # format: headers, replay log, object table
        self._w(0, header_bytes(self.hdr_seq[0]))
        self._w(0x1000, header_bytes(self.hdr_seq[1], version=cfg.get("stale_version", 0x400), sig=cfg.get("stale_sig", SIG_HEADER)))
        self._w(0x8000, struct.pack("<IIIBIIIIIB", SIG_REPLAY, 0, 0, 0, 0x91, 0, 0, 0, 0, 0))
        self.obj[0] = [OBJ_FREE, 0x4000, 0x4000, 1] if cfg.get("free_obj") else [0, 0, 0, 0]
        self.next_off = 0xC000
        self._w(0x2000, self._objtable_bytes())
        self.commits.append((len(self.writes), {}))

    # -- device ------------------------------------------------------------------------------------
    def _w(self, off: int, data: bytes):
        self.writes.append((off, bytes(data)))

    def _alloc(self, size: int) -> int:
        need = (size + ALIGN - 1) // ALIGN * ALIGN
        if self.cfg.get("reuse") and self.rng.random() < 0.7:
            # space of a released object is handed out again (its stale, deallocated entry may still name the offset)
            for i, (o, sz) in enumerate(self.freed):
                if sz >= need:
                    del self.freed[i]
                    self.reused += 1
                    return o
        off = self.next_off
        self.next_off += (size + ALIGN - 1) // ALIGN * ALIGN
        if self.cfg.get("gaps") and self.rng.random() < 0.3:
            self.next_off += ALIGN
        return off

    def _objtable_bytes(self) -> bytes:
        out = struct.pack("<II", SIG_OBJTABLE, OBJ_ENTRIES)
        for t, o, s, a in self.obj:
            out += struct.pack("<BIQIB", t, 0x671BCB4D if t == 0 else 0, o, s, a)
        return out

    def _obj_slot(self) -> int:
        """Slot for a new object. Slots >= 1000 live in the additional object table."""
        if self.cfg.get("second_objtable") and self.rng.random() < 0.5:
            if self.obj2 is None:
                # create the additional object table (fully written first), then register it in the first table
                self.obj2 = [[0, 0, 0, 0] for _ in range(32)]
                self.obj2_off = self._alloc(ALIGN)
                blob = struct.pack("<II", SIG_OBJTABLE, len(self.obj2)) + b"".join(struct.pack("<BIQIB", 0, 0, 0, 0, 0) for _ in self.obj2)
                self._w(self.obj2_off, blob)
                free1 = [i for i, e in enumerate(self.obj) if e[0] == 0 and e[3] == 0]
                self.obj[free1[0]] = [OBJ_OBJTABLE, self.obj2_off, ALIGN, 1]
                self._write_obj_entry(free1[0])
            free2 = [i for i, e in enumerate(self.obj2) if e[0] == 0 and e[3] == 0]
            if free2:
                return 1000 + free2[0]
        free = [i for i, e in enumerate(self.obj) if e[0] == 0 and e[3] == 0]
        return self.rng.choice(free[:8]) if self.cfg.get("scatter_obj") else free[0]

    def _get_obj(self, i: int):
        return self.obj2[i - 1000] if i >= 1000 else self.obj[i]

    def _set_obj(self, i: int, val):
        if i >= 1000:
            self.obj2[i - 1000] = val
        else:
            self.obj[i] = val

    def _write_obj_entry(self, i: int):
        t, o, s, a = self._get_obj(i)
        base = (self.obj2_off + 8 + 18 * (i - 1000)) if i >= 1000 else (0x2008 + 18 * i)
        self._w(base, struct.pack("<BIQIB", t, 0, o, s, a))

    def _commit(self):
        self.commits.append((len(self.writes), copy.deepcopy(self.tree)))

    # -- key tables --------------------------------------------------------------------------------
    def _new_table(self) -> int:
        idx = max(self.tables, default=0) + 1
        size = ALIGN * self.rng.choice([1, 1, 1, 2])
        buf = bytearray(size)
        seq = self.rng.choice([1, 1, 5, 100])
        struct.pack_into("<HHHI", buf, 0, SIG_KEYTABLE, idx, seq, 0)
        self.tables[idx] = {"seq": seq, "off": None, "size": size, "buf": buf, "end": 10, "slot": None}
        return idx

    def _entry_bytes(self, typ: str, key: str, value, parent: tuple[int, int], slack: int) -> bytes:
        kb = key.encode("utf-8") + b"\0"
        assert len(kb) < 256
        flags = 0
        if typ in ("string", "array"):
            vb = value_bytes(typ, value)
            if len(vb) >= 0x800:
                # stored in a file object: the entry holds a (size, offset) pointer
                foff = self._alloc(len(vb))
                self._w(foff, vb)
                slot = self._obj_slot()
                self._set_obj(slot, [OBJ_FILE, foff, (len(vb) + ALIGN - 1) // ALIGN * ALIGN, 1])
                self._write_obj_entry(slot)
                val = struct.pack("<IQ", len(vb), foff)
                flags = 0x01 | (0x02 if self.rng.random() < 0.5 else 0)  # bit 0x02 occurs on strings in the real samples
            else:
                val = struct.pack("<I", len(vb)) + vb
                if self.rng.random() < 0.5:
                    flags = 0x02  # seen on strings in the real samples; meaning unknown, readers ignore it
        else:
            val = value_bytes(typ, value)
        size = 21 + len(kb) + len(val) + slack
        hdr = struct.pack("<HIHIIIB", TYPE_CODE[typ] | (flags << 8), size, parent[0], parent[1], 0, self.ins, len(kb))
        self.ins += 1
        return hdr + kb + val + bytes(slack)

    def _place(self, blob: bytes, prefer: int | None) -> tuple[int, int]:
        """Find room for an entry; returns (table index, offset). May create a table or enlarge one (new version)."""
        # the tail of a table is either empty (zero entry header = end marker) or absent: keep room for one header
        cands = [i for i, t in self.tables.items() if t["size"] - t["end"] >= len(blob) + 21]
        if prefer in cands and self.rng.random() < 0.6:
            idx = prefer
        elif cands and self.rng.random() < 0.8:
            idx = self.rng.choice(cands)
        elif len(self.tables) < self.cfg.get("max_tables", 12) or not self.tables:
            idx = self._new_table()
            if self.tables[idx]["size"] - 10 < len(blob) + 21:
                self.tables[idx]["size"] = (len(blob) + 31 + ALIGN - 1) // ALIGN * ALIGN
                self.tables[idx]["buf"] = self.tables[idx]["buf"] + bytearray(self.tables[idx]["size"] - len(self.tables[idx]["buf"]))
        else:
            idx = self.rng.choice(list(self.tables))
            t = self.tables[idx]
            grow = max(t["size"], (t["end"] + len(blob) + 21 + ALIGN - 1) // ALIGN * ALIGN)
            t["buf"] = t["buf"] + bytearray(grow - len(t["buf"]))
            t["size"] = grow
        t = self.tables[idx]
        off = t["end"]
        t["buf"][off : off + len(blob)] = blob
        t["end"] = off + len(blob)
        return idx, off

    def _publish(self, idx: int):
        """Copy-on-write: write the table's new version to a fresh object, then register it (commit), then release the old."""
        t = self.tables[idx]
        old_off, old_slot = t["off"], t["slot"]
        if old_off is not None:
            t["seq"] += 1
            struct.pack_into("<H", t["buf"], 4, t["seq"])
        new_off = self._alloc(t["size"])
        self._w(new_off, bytes(t["buf"]))
        style = self.rng.choice(["inplace", "add_then_free", "add_keep"]) if old_slot is not None else "add"
        if style == "inplace":
            self._set_obj(old_slot, [OBJ_KEYTABLE, new_off, t["size"], 1])
            self._write_obj_entry(old_slot)
            t["slot"] = old_slot
            self._after_commit()
        else:
            slot = self._obj_slot()
            self._set_obj(slot, [OBJ_KEYTABLE, new_off, t["size"], 1])
            self._write_obj_entry(slot)
            t["slot"] = slot
            self._after_commit()
            if style == "add_then_free" and old_slot is not None:
                how = self.rng.choice(["free", "unalloc", "zero"])
                o = self._get_obj(old_slot)
                self._set_obj(old_slot, [OBJ_FREE, o[1], o[2], 1] if how == "free" else [o[0], o[1], o[2], 0] if how == "unalloc" else [0, 0, 0, 0])
                self._write_obj_entry(old_slot)
                self._after_commit()
                self.freed.append((o[1], (o[2] + ALIGN - 1) // ALIGN * ALIGN))
        t["off"] = new_off

    def _after_commit(self):
        self._commit()

    # -- store operations ----------------------------------------------------------------------------
    def set(self, path: tuple, typ: str, value):
        """Create or replace path (parents are created as nodes)."""
        for i in range(1, len(path)):
            if path[:i] not in self.loc:
                self._set_one(path[:i], "node", None)
        self._set_one(path, typ, value)

    def _set_one(self, path: tuple, typ: str, value):
        parent = self.loc.get(path[:-1], (0, 0, 0))[:2] if len(path) > 1 else (0, 0)
        touched = set()
        old = self.loc.get(path)
        prefer = old[0] if old else (parent[0] or None)
        blob = self._entry_bytes(typ, path[-1], value, parent, self.rng.choice([0, 0, 0, 4, 12]))
        if old is not None:
            # replacement: old entry is released and the new one added in the same table version (one commit)
            t = self.tables[old[0]]
            struct.pack_into("<H", t["buf"], old[1], T_FREE)
            if t["size"] - t["end"] < len(blob) + 21:
                grow = (t["end"] + len(blob) + 21 + ALIGN - 1) // ALIGN * ALIGN
                t["buf"] = t["buf"] + bytearray(grow - len(t["buf"]))
                t["size"] = grow
            off = t["end"]
            t["buf"][off : off + len(blob)] = blob
            t["end"] = off + len(blob)
            idx = old[0]
            self._drop_subtree(path)
        else:
            idx, off = self._place(blob, prefer)
        self.loc[path] = (idx, off, len(blob))
        self._tree_set(path, typ, value)
        self._publish(idx)

    def delete(self, path: tuple):
        if path not in self.loc:
            return
        idx, off, size = self.loc[path]
        t = self.tables[idx]
        struct.pack_into("<H", t["buf"], off, T_FREE)
        self._drop_subtree(path)
        node = self.tree
        for k in path[:-1]:
            node = node[k]
        node.pop(path[-1], None)
        self._publish(idx)

    def _drop_subtree(self, path: tuple):
        for p in [p for p in self.loc if p[: len(path)] == path]:
            del self.loc[p]

    def rewrite(self, idx: int | None = None):
        if not self.tables:
            return
        idx = idx if idx in self.tables else self.rng.choice(list(self.tables))
        self._publish(idx)

    def flip_header(self):
        active = 0 if self.hdr_seq[0] > self.hdr_seq[1] else 1
        other = 1 - active
        self.hdr_seq[other] = self.hdr_seq[active] + 1
        self._w(0x1000 * other, header_bytes(self.hdr_seq[other]))
        self._commit()

    def _tree_set(self, path, typ, value):
        node = self.tree
        for k in path[:-1]:
            node = node[k]
        node[path[-1]] = {} if typ == "node" else value


def image_at(store: Store, nwrites: int) -> bytes:
    """File content after the first nwrites device writes (only durable, whole writes survive a cut)."""
    size = 0
    for off, data in store.writes[:nwrites]:
        size = max(size, off + len(data))
    buf = bytearray((size + ALIGN - 1) // ALIGN * ALIGN)
    for off, data in store.writes[:nwrites]:
        buf[off : off + len(data)] = data
    return bytes(buf)


def tree_at(store: Store, nwrites: int) -> dict:
    tree = {}
    for n, t in store.commits:
        if n <= nwrites:
            tree = t
    return tree


# ---------------------------------------------------------------------------------------------------------
# independent decoder (anchor): recovers the tree of a store file without the reader under test
# ---------------------------------------------------------------------------------------------------------


def decode(raw: bytes) -> dict:
    h1 = struct.unpack("<IIHIQIQQI", raw[0:46])
    h2 = struct.unpack("<IIHIQIQQI", raw[0x1000 : 0x1000 + 46])
    tables = {}
    files = {}
    objtabs = [0x2000]
    objents = []
    seen = set()
    while objtabs:
        base = objtabs.pop(0)
        if base in seen:
            continue
        seen.add(base)
        n = struct.unpack("<I", raw[base + 4 : base + 8])[0]
        for i in range(n):
            e = struct.unpack("<BIQIB", raw[base + 8 + 18 * i : base + 8 + 18 * i + 18])
            objents.append(e)
            if e[0] == OBJ_OBJTABLE and e[4]:
                objtabs.append(e[2])
    for t, _, off, size, alloc in objents:
        if not alloc:
            continue
        if t == OBJ_KEYTABLE:
            sig, idx, seq, _ = struct.unpack("<HHHI", raw[off : off + 10])
            if idx not in tables or tables[idx][0] < seq:
                tables[idx] = (seq, off, size)
        elif t == OBJ_FILE:
            files[off] = size
    entries = {}
    for idx, (seq, off, size) in tables.items():
        p = 10
        while p + 21 <= size:
            typ, sz, pti, po, _, ins, do = struct.unpack("<HIHIIIB", raw[off + p : off + p + 21])
            if sz == 0:
                break
            body = raw[off + p + 21 : off + p + sz]
            key = body[: do - 1].decode("utf-8") if (typ & 0xFF) != T_FREE else ""
            entries[(idx, p)] = (typ & 0xFF, typ >> 8, pti, po, key, body[do:])
            p += sz
    nodes = {k: {} for k, e in entries.items() if e[0] == T_NODE}
    root = {}
    for k, (typ, flags, pti, po, key, data) in entries.items():
        if typ == T_FREE:
            continue
        if typ == T_NODE:
            val = nodes[k]
        elif typ == T_INT:
            val = struct.unpack("<q", data[:8])[0]
        elif typ == T_UINT:
            val = struct.unpack("<Q", data[:8])[0]
        elif typ == T_DOUBLE:
            val = struct.unpack("<d", data[:8])[0]
        elif typ == T_BOOL:
            val = struct.unpack("<I", data[:4])[0] != 0
        elif typ in (T_STRING, T_ARRAY):
            if flags & 1:
                sz, fo = struct.unpack("<IQ", data[:12])
                b = raw[fo : fo + sz]
            else:
                ln = struct.unpack("<I", data[:4])[0]
                b = data[4 : 4 + ln]
            val = b.decode("utf-16-le") if typ == T_STRING else b
        else:
            continue
        if pti == 0:
            root[key] = val
        else:
            parent = nodes.get((pti, po))
            if parent is not None and entries[(pti, po)][0] == T_NODE:
                parent[key] = val
    return root
