"""VirtualBox VDI writer stub (from VDICore.h; see notes/format-crib.md). struct only."""
from __future__ import annotations

import struct
import uuid

from hvsim.model import Layer, View
from hvsim.simfs import SimFile
from hvsim.world import Image
from hvsim.writers.common import align_up, alloc_units, assign_slots, put_poison, put_view

SIG = 0xBEDA107F
CAPS = {"zero_units": True, "compress": False, "dealloc": True, "keep_alloc": False}


def gen_cfg(rng, tier: str, big: bool = False) -> dict:
    bs_choices = [512, 1024, 4096, 8192, 16384, 65536, 1 << 20] if tier == "quick" else [512, 1024, 2048, 4096, 8192, 16384, 32768, 65536, 1 << 18, 1 << 20, 1 << 21]
    block = rng.choice(bs_choices)
    unit = block // 512
    if big:
        block = rng.choice([1 << 20, 1 << 21])
        unit = block // 512
        nblocks = rng.randint(1 << 16, 1 << 20)
    else:
        nblocks = rng.choice([1, 2, 3, 4, 5, 7, 8, 16, 33])
    nsectors = nblocks * unit
    if rng.random() < 0.3 and nsectors > 1:
        nsectors -= rng.randint(1, min(unit, nsectors) - 1) if min(unit, nsectors) > 1 else 0
    return {
        "block": block,
        "nsectors": nsectors,
        "alloc": rng.choice(["seq", "logical", "rev", "perm", "gaps"]),
        "alloc_seed": rng.getrandbits(32),
        "map_off": rng.choice([512, 1024, 4096, 512 * rng.randint(1, 64)]),
        "data_gap": rng.choice([0, 0, 512, 4096, 512 * rng.randint(0, 100)]),
        "type": rng.choice([1, 1, 2]),
        "uuid_seed": rng.getrandbits(32),
        "comment": rng.choice(["", "hvsim", "x" * 255]),
    }


def unit_sectors(cfg) -> int:
    return cfg["block"] // 512


def render(cfg: dict, layer: Layer, view: View, parent: dict | None = None) -> Image:
    img = Image()
    f = SimFile("disk.vdi")
    block = cfg["block"]
    nblocks = layer.nunits
    need = alloc_units(layer)
    slots, nslots = assign_slots(need, cfg["alloc"], cfg["alloc_seed"])
    map_off = cfg["map_off"]
    data_off = align_up(map_off + 4 * nblocks, 512) + cfg["data_gap"]
    r = __import__("random").Random(cfg["uuid_seed"])
    uu = [bytes(r.getrandbits(8) for _ in range(16)) for _ in range(4)]
    if parent is None:
        uu[2] = bytes(16)
        uu[3] = bytes(16)
    comment = cfg["comment"].encode()[:255]
    disk_size = layer.n * 512
    hdr = b"<<< Oracle VM VirtualBox Disk Image >>>\n".ljust(64, b"\0")
    body = struct.pack(
        "<IIIII256sIIIIIIIQIIII",
        SIG, 0x00010001, 0x190, cfg["type"] if parent is None else 4, 0,
        comment.ljust(256, b"\0"),
        map_off, data_off, 0, 0, 0, 512, 0,
        disk_size, block, 0, nblocks, len(need),
    ) + b"".join(uu)
    f.write(0, hdr + body)
    # field map
    names = ["Signature", "Version", "HeaderSize", "ImageType", "ImageFlags"]
    off = 64
    kinds = {"Signature": "magic", "Version": "version"}
    for n in names:
        img.field("vdi.hdr." + n, "disk.vdi", off, 4, "<", kinds.get(n, "int"))
        off += 4
    off += 256
    for n, w, k in [("BlocksOffset", 4, "offset"), ("DataOffset", 4, "offset"), ("NumCylinders", 4, "int"),
                    ("NumHeads", 4, "int"), ("NumSectors", 4, "int"), ("SectorSize", 4, "size"), ("Unused1", 4, "int"),
                    ("DiskSize", 8, "size"), ("BlockSize", 4, "size"), ("BlockExtraData", 4, "size"),
                    ("BlocksInHDD", 4, "count"), ("BlocksAllocated", 4, "count")]:
        img.field("vdi.hdr." + n, "disk.vdi", off, w, "<", k)
        off += w
    # block map
    m = [-1] * nblocks
    for u in set(layer.touch) | set(layer.flags):
        st = layer.ustate(u)
        if st == "zero":
            m[u] = -2
        elif st != "unalloc":
            m[u] = slots[u]
    f.write(map_off, struct.pack("<%di" % nblocks, *m))
    img.field("vdi.map", "disk.vdi", map_off, 4 * nblocks, "<", "table")
    for i in range(min(nblocks, 4)):
        img.field(f"vdi.map[{i}]", "disk.vdi", map_off + 4 * i, 4, "<", "int")
    # data
    used = set()
    for u in need:
        a, b = layer.urange(u)
        pos = data_off + slots[u] * block
        put_view(f, pos, view, a, b)
        if (b - a) * 512 < block:
            put_poison(f, pos + (b - a) * 512, block - (b - a) * 512, 0xB10C)
        used.add(slots[u])
    for s in range(nslots):  # gaps between allocated slots hold stale data
        if s not in used:
            put_poison(f, data_off + s * block, block, 0x57A1)
    f.set_length(max(f.length, data_off + nslots * block, data_off))
    img.files["disk.vdi"] = f
    img.main = "disk.vdi"
    img.meta = {
        "size": disk_size, "block_size": block, "sector_size": 512, "data_offset": data_off,
        "uuid": uu[0], "uuid_snap": uu[1], "uuid_link": uu[2], "uuid_parent": uu[3], "blocks": nblocks,
    }
    img.meta_bytes = 512 + 4 * nblocks
    img.info = {"map": m, "unit_bytes": block, "data_off": data_off}
    return img
