"""Base inputs for the fault-enumeration engines (C11, C12): valid stub images of every kind, chains, descriptor
worlds and the repo's real fixtures, each with a field map and a bounded 'use' routine."""
from __future__ import annotations

import struct

from hvsim import fixtures
from hvsim.core import rng_for
from hvsim.engines import chains, disk, extents
from hvsim.simfs import SimFile
from hvsim.world import Field, World

STUB_KINDS = [
    ("qcow2", {"version": 3, "extl2": False}), ("qcow2", {"version": 3, "extl2": True}), ("qcow2", {"version": 2}),
    ("qcow2", {"data_file": True}), ("qcow2", {"compress": True}),
    ("vmdk", {"kind": "hosted", "compressed_grains": False}), ("vmdk", {"kind": "hosted", "compressed_grains": True}), ("vmdk", {"kind": "stream"}), ("vmdk", {"kind": "cowd"}), ("vmdk", {"kind": "sesparse"}),
    ("vhdx", {}), ("vhd", {"fixed": False}), ("vhd", {"fixed": True}), ("vdi", {}), ("hds", {"ver": 1}), ("hds", {"ver": 2}),
]
CHAIN_KINDS = ["vhdx", "vmdk", "hdd", "qcow2", "qcow2snap", "vdi"]
FIXTURE_DISKS = ["fixed.vhd", "dynamic.vhd", "fixed.vhdx", "dynamic.vhdx", "sesparse.vmdk", "expanding.hdd", "plain.hdd", "split.hdd"]
OTHER = ["hyperv:test.vmcx", "hyperv:test.VMRS", "envelope", "envelope:noverify", "keystore", "vmtar", "vmx"]


def _dense(cfg: dict) -> None:
    """Fault worlds use dense files: with far (sparse) placements a huge read or an endless walk over a hole is the storage's
    doing, not the reader's. All far-placement knobs are switched off."""
    for k in ("data_far", "l2_far", "comp_far", "data_base_mb", "snap_far"):
        if cfg.get(k):
            cfg[k] = 0
    if cfg.get("far"):
        cfg["far"] = False


def stub_spec(seed: int, k: int, variant: int, tier: str) -> dict:
    """A stub image spec of STUB_KINDS[k] (re-drawn until the wanted features are present)."""
    fmt, want = STUB_KINDS[k]
    rng = rng_for(seed, "base", k, variant)
    for _ in range(400):
        dc = disk.gen_case(rng.getrandbits(50), "C11", tier, fmt=fmt)
        cfg = dc["cfg"]
        if cfg["nsectors"] * 512 > (64 << 20):
            continue
        _dense(cfg)
        if all(cfg.get(a) == b for a, b in want.items()):
            if want.get("compress") and not any(op[0] == "c" for op in dc["ops"]):
                units = sorted({op[1] // disk.fmt_module(fmt).unit_sectors(cfg) for op in dc["ops"] if op[0] == "w"})
                dc["ops"] += [["w", 0, 1, 900], ["c", 0]] + [["c", u] for u in units[:2]]
            if not dc["ops"]:
                dc["ops"] = [["w", 0, 1, 901]]
            return {"type": "stub", "fmt": fmt, "cfg": cfg, "ops": dc["ops"], "open": dc["open"], "align": 8192}
    raise RuntimeError(f"no stub spec for {fmt} {want}")


def chain_spec(seed: int, kind: str, variant: int, tier: str) -> dict:
    rng = rng_for(seed, "chainbase", kind, variant)
    for _ in range(200):
        cc = chains.gen_case(rng.getrandbits(50), "C11", tier, kind=kind)
        for L in cc["layers"]:
            _dense(L.get("cfg") or {})
            for x in L.get("exts", []):
                _dense(x)
            for x in L.get("cfgs", []):
                _dense(x)
        if not cc.get("fault") and cc["loc"] in ("same", "sibling"):
            cc["cops"] = cc["cops"][:4]
            return {"type": "chain", "ccase": cc}
    raise RuntimeError("no chain spec")


def extents_spec(seed: int, variant: int, tier: str) -> dict:
    rng = rng_for(seed, "extbase", variant)
    for _ in range(200):
        ec = extents.gen_case(rng.getrandbits(50), "C11", tier)
        for x in ec["exts"]:
            _dense(x["cfg"])
        if not ec.get("fault") and ec["mode"] == "descriptor" and len(ec["exts"]) >= 2:
            ec["cops"] = ec["cops"][:4]
            return {"type": "extents", "ecase": ec}
    raise RuntimeError("no extents spec")


def all_specs(seed: int, tier: str) -> list[dict]:
    per = 1 if tier == "quick" else 3
    specs = []
    for v in range(per):
        for k in range(len(STUB_KINDS)):
            specs.append(stub_spec(seed, k, v, tier))
        for kind in CHAIN_KINDS:
            specs.append(chain_spec(seed, kind, v, tier))
        specs.append(extents_spec(seed, v, tier))
    for n in FIXTURE_DISKS + ["differencing.avhdx"]:
        specs.append({"type": "fixture", "name": n})
    for n in OTHER:
        specs.append({"type": "other", "name": n})
    return specs


# ---------------------------------------------------------------------------------------------------------
# building a base in a world: returns (use_fn, fields [(abs_path, Field)], main_paths)
# ---------------------------------------------------------------------------------------------------------


class Built:
    def __init__(self):
        self.open = None  # () -> object   (must raise for refused inputs)
        self.use = None  # (obj) -> None   bounded request set / content accessors
        self.fields: list[tuple[str, Field]] = []
        self.paths: list[str] = []
        self.request_bytes = 0
        self.unit_bytes = 1 << 16


def _hdr_fields(path, specs, prefix, endian="<"):
    out = []
    for name, off, width, kind in specs:
        out.append((path, Field(prefix + name, path.rsplit("/", 1)[1], off, width, endian, kind)))
    return out


def build(spec: dict, world: World) -> Built:
    b = Built()
    t = spec["type"]
    if t == "stub":
        dc = {"fmt": spec["fmt"], "cfg": spec["cfg"], "ops": spec["ops"], "prop": "C11"}
        F, layers, view, img, main = disk.build(dc, world)
        d = main.rsplit("/", 1)[0]
        for f in img.fields:
            b.fields.append((d + "/" + f.file, f))
        b.paths = [d + "/" + n for n in img.files]
        size = view.n * 512
        b.unit_bytes = F.unit_sectors(spec["cfg"]) * 512
        reqs = _bounded_requests(size)
        b.request_bytes = sum(r[1] for r in reqs)
        b.open = lambda: F.open(world, main, img, spec["open"])
        b.use = lambda s: _read_reqs(s, reqs + getattr(b, "extra_reqs", []))
    elif t == "chain":
        cc = spec["ccase"]
        open_fn, views, expect_fail, rs_fn = chains.build(cc, world)
        b.paths = sorted(world.fs.files)
        b.fields = list(world.fields)
        size = views[-1].n * 512
        reqs = _bounded_requests(size)
        b.request_bytes = sum(r[1] for r in reqs)
        top = len(views) - 1
        b.open = lambda: open_fn(top)
        b.use = lambda s: _read_reqs(s, reqs)
    elif t == "extents":
        ec = spec["ecase"]
        main, paths, model = extents.build(ec, world)
        b.paths = sorted(world.fs.files)
        b.fields = list(world.fields)
        reqs = _bounded_requests(model.n * 512)
        b.request_bytes = sum(r[1] for r in reqs)

        def op():
            from pathlib import Path

            from dissect.hypervisor.disk.vmdk import VMDK

            return VMDK(Path(main))

        b.open = op
        b.use = lambda s: _read_reqs(s, reqs)
    elif t == "fixture":
        name = spec["name"]
        p = fixtures.install(world, name)
        b.paths = sorted(world.fs.files)
        b.fields = _fixture_fields(name, world)
        reqs = [[0, 512], [1 << 20, 65536], [(1 << 22) + 1234, 1 << 20]]
        b.request_bytes = sum(r[1] for r in reqs)
        b.open = lambda: fixtures.open_disk(world, name, p)

        def use(s):
            sz = s.size
            rq = [[0, 512], [max(0, sz - 512), 512], [min(sz // 2, 1 << 22), 65536], [0, min(sz, 1 << 18)]]
            _read_reqs(s, rq)

        b.use = use
    else:
        _build_other(spec["name"], world, b)
    return b


def _bounded_requests(size: int):
    reqs = [[0, 512], [max(0, size - 512), 512], [max(0, size // 2 - 100), 70000], [0, min(size, 1 << 18)]]
    return reqs


def _read_reqs(s, reqs):
    for off, ln in reqs:
        s.seek(off)
        s.read(ln)


def _fixture_fields(name, world):
    out = []
    fmt = (fixtures.DISK_FIXTURES.get(name) or fixtures.ORPHANS[name])[0]
    for p in sorted(world.fs.files):
        f = world.fs.files[p]
        if fmt == "vhd":
            from hvsim.writers.vhd import FOOTER_FIELDS

            foot = f.length - 512
            out += [(p, Field("vhd.footer." + n, p, foot + o, w, ">", k)) for n, o, w, k in FOOTER_FIELDS]
            raw = f.pread(0, 512)
            if raw[:8] == b"conectix":
                doff = struct.unpack(">Q", raw[16:24])[0]
                out += [(p, Field("vhd.dyn." + n, p, doff + o, w, ">", k)) for n, o, w, k in
                        [("cookie", 0, 8, "magic"), ("table_offset", 16, 8, "offset"), ("max_table_entries", 28, 4, "count"),
                         ("block_size", 32, 4, "size")]]
                toff = struct.unpack(">Q", f.pread(doff + 16, 8))[0]
                out += [(p, Field(f"vhd.bat[{i}]", p, toff + 4 * i, 4, ">", "int")) for i in range(4)]
        elif fmt == "vhdx":
            out += [(p, Field("vhdx.ident.signature", p, 0, 8, "<", "magic"))]
            for i, off in enumerate((64 << 10, 128 << 10)):
                out += [(p, Field(f"vhdx.header{i + 1}.signature", p, off, 4, "<", "magic")),
                        (p, Field(f"vhdx.header{i + 1}.sequence_number", p, off + 8, 8, "<", "int")),
                        (p, Field(f"vhdx.header{i + 1}.version", p, off + 66, 2, "<", "version"))]
            for i, off in enumerate((192 << 10, 256 << 10)):
                out += [(p, Field(f"vhdx.region{i + 1}.signature", p, off, 4, "<", "magic")),
                        (p, Field(f"vhdx.region{i + 1}.entry_count", p, off + 8, 4, "<", "count"))]
                for j in range(2):
                    e = off + 16 + 32 * j
                    out += [(p, Field(f"vhdx.region{i + 1}.entry{j}.guid", p, e, 16, "<", "magic")),
                            (p, Field(f"vhdx.region{i + 1}.entry{j}.file_offset", p, e + 16, 8, "<", "offset")),
                            (p, Field(f"vhdx.region{i + 1}.entry{j}.length", p, e + 24, 4, "<", "size"))]
            # metadata region: find it through region table 1
            raw = f.pread(192 << 10, 16 + 32 * 4)
            cnt = struct.unpack("<I", raw[8:12])[0]
            for j in range(min(cnt, 4)):
                g, fo, ln, req = struct.unpack("<16sQII", raw[16 + 32 * j : 48 + 32 * j])
                if g == bytes.fromhex("06a27c8b90479a4bb8fe575f050f886e"):
                    out += [(p, Field("vhdx.meta.signature", p, fo, 8, "<", "magic")), (p, Field("vhdx.meta.entry_count", p, fo + 10, 2, "<", "count"))]
                    mraw = f.pread(fo, 32 + 32 * 8)
                    mc = struct.unpack("<H", mraw[10:12])[0]
                    for k in range(min(mc, 8)):
                        e = fo + 32 + 32 * k
                        out += [(p, Field(f"vhdx.meta.entry{k}.item_id", p, e, 16, "<", "magic")),
                                (p, Field(f"vhdx.meta.entry{k}.offset", p, e + 16, 4, "<", "offset")),
                                (p, Field(f"vhdx.meta.entry{k}.length", p, e + 20, 4, "<", "size"))]
                        io = struct.unpack("<I", mraw[32 + 32 * k + 16 : 32 + 32 * k + 20])[0]
                        out += [(p, Field(f"vhdx.meta.item{k}.word0", p, fo + io, 4, "<", "size")),
                                (p, Field(f"vhdx.meta.item{k}.word1", p, fo + io + 4, 4, "<", "flags"))]
                else:
                    out += [(p, Field(f"vhdx.bat[{k}]", p, fo + 8 * k, 8, "<", "int")) for k in range(3)]
        elif fmt == "vmdk":
            from hvsim.writers.vmdk import _render_sesparse  # noqa: F401  (layout knowledge lives there)

            names = ["magic", "version", "capacity", "grain_size", "grain_table_size", "flags", "r1", "r2", "r3", "r4", "vh_off", "vh_size",
                     "jh_off", "jh_size", "j_off", "j_size", "grain_directory_offset", "grain_directory_size", "grain_tables_offset",
                     "grain_tables_size", "fb_off", "fb_size", "bm_off", "bm_size", "grains_offset", "grains_size"]
            for i, n in enumerate(names):
                kind = "magic" if n == "magic" else "version" if n == "version" else "offset" if n.endswith("offset") or n.endswith("off") else "size"
                out.append((p, Field("sesparse.hdr." + n, p, 8 * i, 8, "<", kind)))
            gd = struct.unpack("<Q", f.pread(16 * 8, 8))[0]
            gt = struct.unpack("<Q", f.pread(18 * 8, 8))[0]
            out += [(p, Field(f"sesparse.gd[{i}]", p, gd * 512 + 8 * i, 8, "<", "int")) for i in range(2)]
            out += [(p, Field(f"sesparse.gt[{i}]", p, gt * 512 + 8 * i, 8, "<", "int")) for i in range(3)]
        elif fmt == "hdd" and p.endswith(".hds"):
            if f.pread(0, 7) == b"Without":
                out += _hdr_fields(p, [("m_Sig", 0, 16, "magic"), ("m_Type", 16, 4, "int"), ("m_Sectors", 28, 4, "size"),
                                       ("m_Size", 32, 4, "count"), ("m_SizeInSectors", 36, 8, "size"), ("m_FirstBlockOffset", 48, 4, "offset")], "hds.hdr.")
                out += [(p, Field(f"hds.bat[{i}]", p, 64 + 4 * i, 4, "<", "int")) for i in range(3)]
    return out


def _build_other(name: str, world: World, b: Built):
    d = world.root + "/ev"
    if name.startswith("hyperv:"):
        fn = name.split(":", 1)[1]
        p = d + "/" + fn
        f = world.fs.add(p, fixtures.simfile(fn))
        b.paths = [p]
        for i, off in enumerate((0, 0x1000)):
            b.fields += _hdr_fields(p, [("signature", off, 4, "magic"), ("checksum", off + 4, 4, "int"), ("sequence_number", off + 8, 2, "int"),
                                        ("version", off + 10, 4, "version"), ("alignment", off + 22, 4, "size"),
                                        ("replay_log_offset", off + 26, 8, "offset"), ("replay_log_size", off + 34, 8, "size"),
                                        ("header_size", off + 42, 4, "size")], f"hyperv.header{i + 1}.")
        rl = struct.unpack("<Q", f.pread(26, 8))[0]
        b.fields += _hdr_fields(p, [("signature", rl, 4, "magic"), ("num_entries", rl + 8, 4, "count"), ("max_entries", rl + 13, 4, "count")], "hyperv.replaylog.")
        ot = 0x2000
        b.fields += _hdr_fields(p, [("signature", ot, 4, "magic"), ("num_entries", ot + 4, 4, "count")], "hyperv.objtable.")
        n = struct.unpack("<I", f.pread(ot + 4, 4))[0]
        kt_off = None
        for i in range(min(n, 12)):
            e = ot + 8 + 18 * i
            typ, _, off, size, alloc = struct.unpack("<BIQIB", f.pread(e, 18))
            b.fields += _hdr_fields(p, [(f"entry{i}.type", e, 1, "int"), (f"entry{i}.offset", e + 5, 8, "offset"), (f"entry{i}.size", e + 13, 4, "size"),
                                        (f"entry{i}.allocated", e + 17, 1, "int")], "hyperv.objtable.")
            if typ == 2 and alloc:
                if kt_off is None:
                    kt_off = off
                else:
                    # every further key table: its signature is a validated structure of its own
                    b.fields += _hdr_fields(p, [("signature", off, 2, "magic")], "hyperv.keytable%d." % i)
        if kt_off is not None:
            b.fields += _hdr_fields(p, [("signature", kt_off, 2, "magic"), ("index", kt_off + 2, 2, "int"), ("sequence_number", kt_off + 4, 2, "int")], "hyperv.keytable.")
            eo = kt_off + 10
            for i in range(4):
                typ, size = struct.unpack("<HI", f.pread(eo, 6))
                b.fields += _hdr_fields(p, [(f"e{i}.type", eo, 2, "int"), (f"e{i}.size", eo + 2, 4, "size"), (f"e{i}.parent_table_idx", eo + 6, 2, "int"),
                                            (f"e{i}.parent_offset", eo + 8, 4, "offset"), (f"e{i}.data_offset", eo + 20, 1, "size")], "hyperv.keytable.")
                if size == 0:
                    break
                eo += size

        def op():
            from dissect.hypervisor.descriptor.hyperv import HyperVFile

            return HyperVFile(world.handle(p))

        b.open = op
        b.use = lambda h: h.as_dict()
    elif name in ("envelope", "envelope:noverify"):
        # the second flavour opens with verify=False (a documented constructor option): what is refused at open does not
        # depend on whether the tag will be checked later
        p = d + "/local.tgz.ve"
        f = world.fs.add(p, fixtures.simfile("local.tgz.ve"))
        world.fs.add(d + "/encryption.info", fixtures.simfile("encryption.info"))
        b.paths = [p]
        b.fields += _hdr_fields(p, [("magic", 0, 21, "magic"), ("size", 504, 4, "size"), ("version", 508, 4, "version")], "envelope.hdr.")
        # attribute records start at 512
        raw = f.pread(512, 1024)
        pos = 0
        i = 0
        while pos < len(raw) and raw[pos] != 0 and i < 8:
            typ = raw[pos]
            b.fields += _hdr_fields(p, [(f"attr{i}.type", 512 + pos, 1, "int"), (f"attr{i}.flag", 512 + pos + 1, 1, "int")], "envelope.")
            nend = raw.index(b"\0", pos + 4)
            b.fields += _hdr_fields(p, [(f"attr{i}.name", 512 + pos + 4, nend - pos - 4, "magic")], "envelope.")
            vpos = nend + 1
            if typ == 0x0B:
                vend = raw.index(b"\0", vpos)
                b.fields += _hdr_fields(p, [(f"attr{i}.strvalue", 512 + vpos, max(1, vend - vpos), "magic")], "envelope.")
                pos = vend + 1
            elif typ == 0x0C:
                ln = struct.unpack("<Q", raw[vpos : vpos + 8])[0]
                b.fields += _hdr_fields(p, [(f"attr{i}.len", 512 + vpos, 8, "size")], "envelope.")
                pos = vpos + 8 + ln
            else:
                break
            i += 1
        foot = f.length - 4096
        b.fields += _hdr_fields(p, [("magic", foot, 23, "magic"), ("size", foot + 4088, 4, "size"), ("version", foot + 4092, 4, "version")], "envelope.aeadfooter.")

        def op():
            from dissect.hypervisor.util.envelope import Envelope

            return Envelope(world.handle(p)) if name == "envelope" else Envelope(world.handle(p), verify=False)

        def use(ev):
            from dissect.hypervisor.util.envelope import KeyStore

            ks = KeyStore.from_text(world.fs.files[d + "/encryption.info"].pread(0, 4096).decode())
            ev.decrypt(ks.key, aad=b"ESXConfiguration")

        b.open = op
        b.use = use
    elif name == "keystore":
        p = d + "/encryption.info"
        f = world.fs.add(p, fixtures.simfile("encryption.info"))
        b.paths = [p]
        txt = f.pread(0, 4096)
        for key in (b"mode = ", b"keyId=", b"data1=", b"data2="):
            o = txt.index(key) + len(key)
            b.fields += _hdr_fields(p, [(key.decode().strip(" ="), o + (1 if key == b"mode = " else 0), 4, "magic")], "keystore.")

        def op():
            from pathlib import Path

            from dissect.hypervisor.util.envelope import KeyStore

            return KeyStore.from_text(Path(p).read_text())

        b.open = op
        b.use = lambda ks: (ks.key, ks.id)
    elif name == "vmtar":
        p = d + "/test.tar"
        raw = fixtures.raw("test.vgz")  # despite its name the sample is an uncompressed visor tar
        f = SimFile()
        f.write(0, raw)
        world.fs.add(p, f)
        world.fs.add(d + "/test.vgz", fixtures.simfile("test.vgz"))
        b.paths = [p, d + "/test.vgz"]
        for i in range(3):
            base = 512 * i
            b.fields += _hdr_fields(p, [(f"m{i}.name", base, 8, "magic"), (f"m{i}.size", base + 124, 12, "magic"), (f"m{i}.chksum", base + 148, 8, "magic"),
                                        (f"m{i}.typeflag", base + 156, 1, "int"), (f"m{i}.magic", base + 257, 7, "magic"),
                                        (f"m{i}.offset_data", base + 496, 4, "offset"), (f"m{i}.textPgs", base + 504, 4, "count")], "vmtar.")

        def op():
            from dissect.hypervisor.util import vmtar

            return vmtar.open(fileobj=world.handle(p))

        def use(t):
            for m in t.getmembers():
                if m.isfile():
                    t.extractfile(m).read()

        b.open = op
        b.use = use
    elif name == "vmx":
        p = d + "/encrypted.vmx"
        f = world.fs.add(p, fixtures.simfile("encrypted.vmx"))
        b.paths = [p]
        txt = f.pread(0, 1 << 16)
        o = txt.index(b"encryption.keySafe")
        b.fields += _hdr_fields(p, [("keysafe.prefix", txt.index(b"vmware:key"), 10, "magic"), ("keysafe.kind", txt.index(b"/list/") + 1, 4, "magic")], "vmx.")
        for key in (b"pass2key", b"cipher", b"rounds", b"salt", b"HMAC", b"encryption.data"):
            try:
                b.fields += _hdr_fields(p, [(key.decode(), txt.index(key, o), len(key) + 12, "magic")], "vmx.")
            except ValueError:
                pass

        def op():
            from pathlib import Path

            from dissect.hypervisor.descriptor.vmx import VMX

            vm = VMX.parse(Path(p).read_text())
            vm.unlock_with_phrase("password")  # the protected content becomes readable here: this is the 'open'
            return vm

        def use(vm):
            vm.disks()

        b.open = op
        b.use = use
