"""World: one simulated run's environment (event log, namespace, fault counters, probes)."""
from __future__ import annotations

from collections import Counter

from hvsim.core import EventLog
from hvsim.simfs import MONITOR, SimFS, SimFile, SimHandle


class Field:
    """One stored metadata field a writer emitted: where it lives, so faults can be field-aware."""

    __slots__ = ("name", "file", "off", "width", "endian", "kind", "value")

    def __init__(self, name, file, off, width, endian="<", kind="int", value=None):
        self.name = name
        self.file = file
        self.off = off
        self.width = width
        self.endian = endian
        self.kind = kind  # int | magic | offset | count | size | flags | version | table
        self.value = value

    def to_json(self):
        return [self.name, self.file, self.off, self.width, self.endian, self.kind]


class Image:
    """What a writer stub hands to an engine."""

    def __init__(self):
        self.files: dict[str, SimFile] = {}  # relative name -> file
        self.main: str = ""
        self.meta: dict = {}  # stored metadata the reader must expose (C14)
        self.fields: list[Field] = []
        self.meta_bytes = 0  # size of mapping metadata (C13)
        self.info: dict = {}  # harness-side facts (probes, geometry)

    def field(self, name, file, off, width, endian="<", kind="int", value=None):
        self.fields.append(Field(name, file, off, width, endian, kind, value))


class World:
    def __init__(self, run_id: str = "r"):
        self.log = EventLog()
        self.fs = SimFS(self)
        self.root = f"/simfs/{run_id}"
        self.fs.mount(self.root)
        self.faults_fired = Counter()
        self.probes = Counter()
        self.handles: list[tuple[str, SimHandle]] = []
        self.pending_eio: dict[str, int] = {}  # path -> k (arm EIO on k-th read of the next handle on path)
        self.fields: list[tuple[str, Field]] = []  # (absolute path, field) of every image placed in this world
        MONITOR.install()
        MONITOR.reset()

    def on_handle(self, h: SimHandle, spath: str):
        self.handles.append((spath, h))
        k = self.pending_eio.get(spath)
        if k is not None:
            h.eio_at = k

    def install(self, image: Image, directory: str = "") -> str:
        """Place an image's files under root/directory; returns the absolute path of the main file."""
        base = self.root + ("/" + directory.strip("/") if directory else "")
        for name, f in image.files.items():
            self.fs.add(base + "/" + name, f)
            self.note_fields(image, name, base + "/" + name)
        return base + "/" + image.main

    def note_fields(self, image: Image, name: str, path: str):
        for fld in image.fields:
            if fld.file == name:
                self.fields.append((path, fld))

    def handle(self, path: str, named: bool = True) -> SimHandle:
        f = self.fs.files[path]
        h = SimHandle(f, self, name=path if named else None)
        self.on_handle(h, path)
        return h

    def io_faults_fired(self) -> int:
        f = self.faults_fired
        return f["eio_on_read"] + f["eio_partial"] + f["short_read_meta"]

    def arm_io_fault(self, k: int, kind: str = "eio") -> None:
        """Arm a transient I/O fault on every open handle of this world: it fires on the handle that makes the k-th read call."""
        for _, h in self.handles:
            if not h.closed:
                h.eio_at = h.reads + k
                h.fault_kind = kind

    def disarm_io_faults(self) -> None:
        for _, h in self.handles:
            h.eio_at = None
            h.fault_kind = "eio"

    def total_ledger(self):
        calls = req = ret = data = raw = 0
        for f in self.fs.files.values():
            calls += f.ledger["calls"]
            req += f.ledger["req"]
            ret += f.ledger["ret"]
            data += f.ledger["data"]
            raw += f.ledger["raw"]
        return {"calls": calls, "req": req, "ret": ret, "data": data, "raw": raw}

    def step_allowance(self, base: int, per_byte: float, request: int = 0):
        """Allowance function for the step meter: base + per_byte * min(bytes delivered since now, bytes stored + request)."""
        start = self.total_ledger()["ret"]
        stored = sum(f.stored_bytes() for f in self.fs.files.values()) + request

        def allow():
            return int(base + per_byte * min(self.total_ledger()["ret"] - start, stored))

        return allow

    def mutated(self) -> list:
        return list(MONITOR.mutations)
