"""Seeds, event log, violations, step meter, stream-buffer knob.

Everything a run decides is either in the *case* (a JSON-serialisable dict produced by a generator from one
integer) or derived from it by pure code, so `run(case)` is a pure function of (case, code under test).
"""
from __future__ import annotations

import hashlib
import json
import random
import sys
from collections import Counter

_MASK64 = (1 << 64) - 1


def H(*parts) -> int:
    """Stable 64-bit hash of the parts (no PYTHONHASHSEED dependence)."""
    h = hashlib.sha256(repr(parts).encode()).digest()
    return int.from_bytes(h[:8], "big")


def rng_for(*parts) -> random.Random:
    return random.Random(H(*parts))


class EventLog:
    """Append-only log of (seq, actor, op, args, result-digest). seq is simulated time."""

    __slots__ = ("events", "seq")

    def __init__(self):
        self.events = []
        self.seq = 0

    def add(self, actor: str, op: str, args=None, result=None) -> int:
        self.seq += 1
        if isinstance(result, (bytes, bytearray, memoryview)):
            result = "b%d:%s" % (len(result), hashlib.blake2b(bytes(result), digest_size=8).hexdigest())
        self.events.append((self.seq, actor, op, args, result))
        return self.seq

    def digest(self) -> str:
        h = hashlib.sha256()
        for ev in self.events:
            h.update(json.dumps(ev, sort_keys=True, default=str).encode())
            h.update(b"\n")
        return h.hexdigest()


class Violation:
    """A property violation. `klass` is the violation class used for minimisation and known-finding matching."""

    def __init__(self, prop: str, klass: str, step: int, detail: str, sig: dict | None = None):
        self.prop = prop
        self.klass = klass
        self.step = step
        self.detail = detail
        self.sig = sig or {}

    def to_json(self) -> dict:
        return {"property": self.prop, "class": self.klass, "step": self.step, "detail": self.detail, "sig": self.sig}

    def __repr__(self):
        return f"<Violation {self.prop} {self.klass} step={self.step} {self.detail[:120]}>"


class RunResult:
    def __init__(self, log: EventLog, violation: Violation | None = None):
        self.violation = violation
        self.digest = log.digest()
        self.steps = log.seq
        self.probes = Counter()
        self.faults = Counter()
        self.keys = set()  # distinct-state keys (tuples)
        self.nontrivial_keys = set()
        self.extra = {}


class HarnessError(Exception):
    """The harness itself misbehaved (never reported as a VIOLATION)."""


# ---------------------------------------------------------------------------------------------------------
# step meter: LINE events counted through sys.monitoring; a breach raises a BaseException inside the reader
# ---------------------------------------------------------------------------------------------------------


class BudgetExceeded(BaseException):
    pass


_TOOL = 4
_mon = sys.monitoring
_HARNESS_DIR = __file__.rsplit("/", 1)[0] + "/"


class StepMeter:
    """Counts executed Python lines while active; raises BudgetExceeded when `limit` is passed."""

    _installed = False
    count = 0
    limit = 0
    active = False
    allowance = None  # optional callable -> absolute limit justified by the work done so far (bytes delivered)

    @classmethod
    def _over(cls) -> bool:
        """Budget reached: extend it if the allowance function justifies more, else report a breach."""
        if cls.allowance is not None:
            new = cls.allowance()
            if new > cls.count:
                cls.limit = new
                return False
        cls.limit = 1 << 62  # raise once
        return True

    @classmethod
    def _cb(cls, code, line):
        if code.co_filename.startswith(_HARNESS_DIR):
            return _mon.DISABLE  # harness frames (storage fakes) are not the reader's work
        cls.count += 1
        if cls.count > cls.limit and cls._over():
            raise BudgetExceeded(f"step budget exceeded at {code.co_filename}:{line}")

    @classmethod
    def _cb_jump(cls, code, src, dst):
        cls.count += 1
        if cls.count > cls.limit and cls._over():
            raise BudgetExceeded(f"loop budget exceeded in {code.co_filename}:{code.co_name}")

    @classmethod
    def _cb_start(cls, code, off):
        cls.count += 1
        if cls.count > cls.limit and cls._over():
            raise BudgetExceeded(f"call budget exceeded in {code.co_filename}:{code.co_name}")

    @classmethod
    def start(cls, limit: int, mode: str = "line", allowance=None):
        """mode 'line': every executed line (C11 budgets). mode 'loop': backward/unconditional jumps and
        function entries only - a much cheaper counter that still bounds every Python loop and recursion."""
        if not cls._installed:
            try:
                _mon.use_tool_id(_TOOL, "hvsim")
            except ValueError:
                pass
            _mon.register_callback(_TOOL, _mon.events.LINE, cls._cb)
            _mon.register_callback(_TOOL, _mon.events.JUMP, cls._cb_jump)
            _mon.register_callback(_TOOL, _mon.events.PY_START, cls._cb_start)
            cls._installed = True
        cls.count = 0
        cls.limit = limit
        cls.allowance = allowance
        cls.active = True
        if mode == "line":
            _mon.set_events(_TOOL, _mon.events.LINE)
        else:
            _mon.set_events(_TOOL, _mon.events.JUMP | _mon.events.PY_START)

    @classmethod
    def stop(cls) -> int:
        _mon.set_events(_TOOL, 0)
        cls.active = False
        return cls.count


class metered:
    """Context manager: `with metered(limit) as m: ...; m.steps`."""

    def __init__(self, limit: int, mode: str = "line", allowance=None):
        self.limit = limit
        self.mode = mode
        self.allowance = allowance
        self.steps = 0

    def __enter__(self):
        StepMeter.start(self.limit, self.mode, self.allowance)
        return self

    def __exit__(self, et, ev, tb):
        self.steps = StepMeter.stop()
        return False


# ---------------------------------------------------------------------------------------------------------
# the stream buffer knob (DISSECT_STREAM_BUFFER_SIZE): dissect.util.stream reads the variable once at import
# and binds it as the default `align` argument of its stream classes.  Re-binding those defaults is exactly
# what starting the process with another value of the variable does; `check selftest align` proves that on
# a sample by comparing digests against subprocesses started with the real environment variable.
# ---------------------------------------------------------------------------------------------------------

_align_sites = None


def set_stream_align(align: int) -> None:
    global _align_sites
    import inspect

    import dissect.util.stream as S

    if _align_sites is None:
        _align_sites = []
        for name in dir(S):
            obj = getattr(S, name)
            if isinstance(obj, type) and "__init__" in obj.__dict__:
                fn = obj.__dict__["__init__"]
                try:
                    sig = inspect.signature(fn)
                except (TypeError, ValueError):
                    continue
                params = [p for p in sig.parameters.values() if p.default is not inspect.Parameter.empty]
                for i, p in enumerate(params):
                    if p.name == "align":
                        _align_sites.append((fn, i))
    for fn, i in _align_sites:
        d = list(fn.__defaults__)
        d[i] = align
        fn.__defaults__ = tuple(d)
    S.STREAM_BUFFER_SIZE = align


def dumps(obj) -> str:
    return json.dumps(obj, sort_keys=True, default=_json_default)


def _json_default(o):
    if isinstance(o, (bytes, bytearray)):
        return {"__b__": bytes(o).hex()}
    if isinstance(o, (set, frozenset)):
        return sorted(o)
    if isinstance(o, tuple):
        return list(o)
    return str(o)


def from_jsonable(o):
    """Inverse of the bytes encoding used by dumps()."""
    if isinstance(o, dict):
        if set(o) == {"__b__"}:
            return bytes.fromhex(o["__b__"])
        return {k: from_jsonable(v) for k, v in o.items()}
    if isinstance(o, list):
        return [from_jsonable(v) for v in o]
    return o
