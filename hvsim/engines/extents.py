"""C10 - descriptor-driven multi-extent assembly and size accounting.

World: a directory on the simulated namespace holding a VMDK descriptor that names 1-8 extents of seeded kinds and
sizes (or an explicit list of VMDK handles, or a Parallels .hdd with several storages).  Oracle: size = sum of the
extents, content = concatenation in declared order; a missing extent file must make open fail."""
from __future__ import annotations

import traceback

from hvsim import gen
from hvsim.core import BudgetExceeded, RunResult, Violation, metered, rng_for, set_stream_align
from hvsim.model import Layer, View, describe, first_mismatch
from hvsim.simfs import SimFile, monitored
from hvsim.world import World
from hvsim.writers import hds as WH
from hvsim.writers import vmdk as WV

STEP_LIMIT = 600_000
TYPE_OF = {"flat": ["FLAT", "VMFS"], "hosted": ["SPARSE"], "stream": ["SPARSE"], "cowd": ["VMFSSPARSE"], "sesparse": ["SESPARSE"]}
NAMES = ["disk-s%03d.vmdk", "my disk-s%03d.vmdk", "dïsk-flat %d.vmdk", "disk.%d.delta.vmdk", "a b c %d.vmdk", "disk-%d-📀.vmdk", "x%d",
         "clone #%d of base.vmdk", "Windows 10 x64\u2028(copy)-f%03d.vmdk", "nel\u0085name-%d.vmdk", "ff\x0cvt\x0b-%d.vmdk", "a=b;c-%d.vmdk",
         "RW 12 FLAT %d.vmdk", "tab\there-%d.vmdk", 'my "old" disk %d.vmdk', "it's-%d.vmdk", 'a"b-%d.vmdk',
         # names that a Unicode normaliser would rewrite: decomposed accents (as HFS+/APFS hosts store them), the Angstrom sign, a
         # CJK compatibility ideograph - the directory holds exactly these code points
         "cafe\u0301-%d.vmdk", "\u212bngstro\u0308m-%d.vmdk", "\uf900-%d.vmdk"]


def gen_case(seed: int, prop: str, tier: str) -> dict:
    rng = rng_for(seed, "extents")
    mode = rng.choice(["descriptor", "descriptor", "descriptor", "handles", "hdd"])
    case = {"engine": "extents", "prop": prop, "seed": seed, "mode": mode, "align": rng.choice([8192] * 6 + [512, 4096, 65536]),
            "fault": None}
    n = rng.choice([1, 2, 2, 3, 4, 6, 8] if tier == "quick" else [1, 2, 3, 4, 5, 6, 7, 8])
    exts = []
    if mode == "hdd":
        cl = rng.choice([1, 8, 16, 128, 2048])
        for j in range(n):
            c = WH.gen_cfg(rng, tier)
            c["cluster"] = cl
            c["nsectors"] = cl * rng.choice([1, 2, 3, 5, 9]) - (rng.randrange(cl) if rng.random() < 0.2 and j == n - 1 else 0)
            if c["nsectors"] <= 0:
                c["nsectors"] = cl
            exts.append({"cfg": c, "unit": cl, "plain": rng.random() < 0.15})
        case["order"] = rng.sample(range(n), n)
    else:
        namefmt = rng.choice(NAMES)
        for j in range(n):
            k = rng.choice(["flat", "flat", "hosted", "hosted", "stream", "cowd", "sesparse"])
            c = WV.gen_cfg(rng, tier, kind=k)
            c["embed_desc"] = False
            if k == "flat":
                c["nsectors"] = rng.choice([1, 3, 8, 15, 16, 17, 64, 100, 2048, 4099])
                c["file_offset"] = rng.choice([0, 0, 0, 0, 0, 0, 0, 8, 63]) if mode == "descriptor" else 0
            elif c["nsectors"] > 200000:
                c["nsectors"] = c["grain"] * rng.randint(1, 600) + rng.choice([0, 0, 1, 7])
                if k == "sesparse":
                    c["nsectors"] -= c["nsectors"] % 8
                    c["nsectors"] = max(8, c["nsectors"])
            exts.append({"cfg": c, "unit": c["grain"] if k != "flat" else max(1, c["nsectors"]), "kind": k,
                         "type": rng.choice(TYPE_OF[k]), "name": (namefmt % (j + 1)) if "%" in namefmt else namefmt,
                         "access": rng.choice(["RW", "RW", "RDONLY"])})
        # several flat extents may live in one backing file, each at its own start offset
        flats = [x for x in exts if x["kind"] == "flat"]
        if mode == "descriptor" and len(flats) >= 2 and rng.random() < 0.5:
            shared = flats[0]["name"]
            off = flats[0]["cfg"].get("file_offset", 0)
            for x in flats:
                x["name"] = shared
                x["cfg"]["file_offset"] = off
                x["shared"] = True
                off += x["cfg"]["nsectors"] + rng.choice([0, 0, 8, 100])
        case["create_type"] = rng.choice(["twoGbMaxExtentSparse", "twoGbMaxExtentFlat", "vmfs", "custom"])
        case["named"] = rng.random() < 0.5  # open through a named handle instead of a Path
    wid = 1
    for j, x in enumerate(exts):
        nsec = x["cfg"]["nsectors"]
        caps = WV.caps(x["cfg"]) if mode != "hdd" else ({"dealloc": not x["plain"]})
        x["ops"] = gen.gen_layer_ops(rng, nsec, x["unit"], caps, rng.choice([0, 1, 2, 4]), wid, False)
        wid += 50
    case["exts"] = exts
    if rng.random() < 0.15 and mode != "handles":
        case["fault"] = "missing_extent"
        case["fault_idx"] = rng.randrange(n)
    elif rng.random() < 0.08 and mode == "descriptor" and any(x["kind"] == "flat" and not x.get("shared") for x in exts):
        # a flat extent's file is a truncated copy: the disk still has its declared size and every other extent its own range
        case["fault"] = "truncated_extent"
        case["fault_idx"] = rng.choice([j for j, x in enumerate(exts) if x["kind"] == "flat" and not x.get("shared")])
        case["fault_cut"] = rng.choice([0.0, 0.3, 0.5, 0.9])
    total = sum(x["cfg"]["nsectors"] for x in exts) * 512
    marks = {0, total}
    acc = 0
    for x in exts:
        marks.add(acc * 512)
        for op in x["ops"]:
            if op[0] in ("w", "z"):
                marks.add((acc + op[1]) * 512)
                marks.add((acc + op[1] + op[2]) * 512)
        acc += x["cfg"]["nsectors"]
    reqs = gen.gen_requests(rng, total, 512 * 16, sorted(marks), rng.choice([4, 8, 14]), case["align"], 512, max_len=1 << 21)
    cops = []
    for off, ln in reqs:
        if mode != "hdd" and rng.random() < 0.25 and off < total:
            s = off // 512
            cops.append(["rs", s, max(1, min(max(1, ln // 512), total // 512 - s))])
        else:
            cops.append(["r", off, ln])
    cops.append(["r", max(0, total - rng.choice([1, 512, 8192, 100000])), 200000])  # always end at the tail once
    case["cops"] = cops
    return case


class Concat:
    def __init__(self, views):
        self.views = views
        self.n = sum(v.n for v in views)

    def expected(self, off, ln):
        out = []
        base = 0
        end = min(off + ln, self.n * 512)
        for v in self.views:
            vs, ve = base, base + v.n * 512
            a, b = max(off, vs), min(end, ve)
            if a < b:
                out.append(v.expected(a - vs, b - a))
            base = ve
        return b"".join(out)

    def nparts(self, off, ln):
        base = 0
        cnt = 0
        end = min(off + ln, self.n * 512)
        for v in self.views:
            if max(off, base) < min(end, base + v.n * 512):
                cnt += 1
            base += v.n * 512
        return cnt


def build(case, world: World):
    mode = case["mode"]
    d = world.root + "/vm"
    views = []
    paths = []
    for j, x in enumerate(case["exts"]):
        cfg = x["cfg"]
        lay = Layer(10 + j, cfg["nsectors"], x["unit"])
        caps = WV.caps(cfg) if mode != "hdd" else {"dealloc": not x["plain"]}
        gen.apply_ops(lay, x["ops"], caps, False)
        view = View([lay])
        views.append(view)
        if mode == "hdd":
            fname = "disk.hdd.%d.%s.hds" % (j, WH.DEFAULT_TOP)
            img = WH.render_plain(lay, view, fname) if x["plain"] else WH.render(cfg, lay, view, name=fname)
            world.fs.add(d + "/disk.hdd/" + fname, img.files[fname])
            world.note_fields(img, fname, d + "/disk.hdd/" + fname)
            paths.append(d + "/disk.hdd/" + fname)
        else:
            name = x["name"]
            img = WV.render(cfg, lay, view, name=name)
            f = img.files[name]
            fo = cfg.get("file_offset", 0)
            if x.get("shared"):
                from hvsim.writers.common import put_poison, put_view

                g = world.fs.files.get(d + "/" + name)
                if g is None:
                    g = SimFile(name)
                    put_poison(g, 0, fo * 512, 0x0FF5)
                end = g.length
                if fo * 512 > end:
                    put_poison(g, end, fo * 512 - end, 0x0FF6)
                put_view(g, fo * 512, view, 0, lay.n)
                g.set_length(max(g.length, (fo + lay.n) * 512))
                f = g
            elif fo:
                g = SimFile(name)  # the extent's data starts fo sectors into its file
                from hvsim.writers.common import put_poison, put_view

                put_poison(g, 0, fo * 512, 0x0FF5)
                put_view(g, fo * 512, view, 0, lay.n)
                g.set_length((fo + lay.n) * 512)
                f = g
            world.fs.add(d + "/" + name, f)
            paths.append(d + "/" + name)
    if mode == "hdd":
        acc = 0
        storages = []
        for j, x in enumerate(case["exts"]):
            n = x["cfg"]["nsectors"]
            fname = "disk.hdd.%d.%s.hds" % (j, WH.DEFAULT_TOP)
            storages.append({"start": acc, "end": acc + n, "blocksize": x["unit"],
                             "images": [(WH.DEFAULT_TOP, "Plain" if x["plain"] else "Compressed", fname)]})
            acc += n
        storages = [storages[i] for i in case["order"]]
        xml = WH.descriptor_xml(storages, [(WH.DEFAULT_TOP, WH.NULL_GUID)], disk_sectors=acc)
        df = SimFile()
        df.write(0, xml.encode())
        world.fs.add(d + "/disk.hdd/DiskDescriptor.xml", df)
        main = d + "/disk.hdd"
    elif mode == "descriptor":
        lines = []
        for x in case["exts"]:
            line = f'{x["access"]} {x["cfg"]["nsectors"]} {x["type"]} "{x["name"]}"'
            if x["kind"] == "flat":
                line += " %d" % x["cfg"].get("file_offset", 0)
            lines.append(line)
        ctype = case["create_type"]
        text = WV.descriptor_text("%08x" % (case["seed"] & 0xFFFFFFFF), "ffffffff", ctype, lines)
        df = SimFile()
        df.write(0, text.encode())
        world.fs.add(d + "/disk.vmdk", df)
        main = d + "/disk.vmdk"
    else:
        main = None
    if case.get("fault") == "missing_extent":
        p = paths[case["fault_idx"] % len(paths)]
        world.fs.files.pop(p, None)
        world.faults_fired["missing_extent"] += 1
    if case.get("fault") == "truncated_extent":
        p = paths[case["fault_idx"] % len(paths)]
        tf = world.fs.files.get(p)
        if tf is not None:
            tf.trunc_at = int(tf.length * case["fault_cut"]) // 512 * 512
            world.faults_fired["truncated_extent"] += 1
    return main, paths, Concat(views)


def run_case(case: dict) -> RunResult:
    world = World("x")
    log = world.log
    prop = case["prop"]
    set_stream_align(case["align"])
    kinds = tuple(sorted({x.get("kind", "hds") for x in case["exts"]}))
    sig = {"mode": case["mode"], "kinds": kinds, "fault": case.get("fault") or "none"}
    viol = None
    keys, ntkeys = set(), set()

    def v(klass, detail):
        return Violation(prop, klass, log.seq, detail, dict(sig, klass=klass))

    with world.fs, monitored():
        main, paths, model = build(case, world)
        log.add("writer", "render", [case["mode"], len(case["exts"])], None)
        stream = None
        try:
            with metered(STEP_LIMIT, "loop", world.step_allowance(STEP_LIMIT, 2.0, 1 << 22)):
                if case["mode"] == "hdd":
                    from pathlib import Path

                    from dissect.hypervisor.disk.hdd import HDD

                    stream = HDD(Path(main)).open()
                else:
                    from pathlib import Path

                    from dissect.hypervisor.disk.vmdk import VMDK

                    if case["mode"] == "handles":
                        stream = VMDK([world.handle(p) for p in paths])
                    elif case["named"]:
                        stream = VMDK(world.handle(main))
                    else:
                        stream = VMDK(Path(main))
            log.add("acquirer", "open", case["mode"], "ok")
        except BudgetExceeded:
            viol = v("budget", "open did not finish within the step budget")
        except Exception as e:
            log.add("acquirer", "open", case["mode"], "raised:" + type(e).__name__)
            if case.get("fault"):
                keys.add(("refused", case["mode"]))
                ntkeys.add(("refused", case["mode"]))
            else:
                tb = traceback.extract_tb(e.__traceback__)[-1]
                viol = v("raised:" + type(e).__name__, f"open raised {type(e).__name__}: {e} at {tb.filename.rsplit('/', 1)[-1]}:{tb.lineno}"[:300])
        else:
            if case.get("fault") == "missing_extent":
                viol = v("served-with-missing-extent", f"open succeeded although extent {case['fault_idx']} is missing "
                                                       f"(size reported {stream.size}, full size {model.n * 512})")
        dmg = (0, 0)
        if case.get("fault") == "truncated_extent":
            a0 = sum(x["cfg"]["nsectors"] for x in case["exts"][: case["fault_idx"]]) * 512
            dmg = (a0, a0 + case["exts"][case["fault_idx"]]["cfg"]["nsectors"] * 512)
        if viol is None and stream is not None:
            size = model.n * 512
            if stream.size != size:
                viol = v("size", f"size {stream.size} != sum of extents {size}")
            if viol is None and case["mode"] != "hdd":
                data_bearing = len(case["exts"])
                if len(stream.disks) != data_bearing:
                    viol = v("extent-dropped", f"{len(stream.disks)} extents opened, descriptor names {data_bearing}")
            for op in case["cops"] if viol is None else []:
                try:
                    with metered(STEP_LIMIT, "loop", world.step_allowance(STEP_LIMIT, 2.0, 1 << 23)):
                        if op[0] == "r":
                            off, ln = op[1], op[2]
                            stream.seek(off)
                            got = stream.read(ln)
                        else:
                            off, ln = op[1] * 512, op[2] * 512
                            got = stream.read_sectors(op[1], op[2])
                except BudgetExceeded:
                    viol = v("budget", f"{op} did not finish within the step budget")
                    break
                except Exception as e:
                    tb = traceback.extract_tb(e.__traceback__)[-1]
                    log.add("client", op[0], op[1:], "raised:" + type(e).__name__)
                    if case.get("fault") == "truncated_extent" and (op[1] if op[0] == "r" else op[1] * 512) - case["align"] < dmg[1] and \
                            (op[1] + op[2] if op[0] == "r" else (op[1] + op[2]) * 512) + case["align"] > dmg[0]:
                        continue
                    viol = v("raised:" + type(e).__name__, f"{op} raised {type(e).__name__}: {e} at {tb.filename.rsplit('/', 1)[-1]}:{tb.lineno}"[:300])
                    break
                log.add("client", op[0], op[1:], got)
                if case.get("fault") == "truncated_extent" and off - case["align"] < dmg[1] and off + ln + case["align"] > dmg[0]:
                    continue  # the request (widened to the stream buffer) touches the damaged extent: nothing is promised about it
                want = model.expected(off, ln)
                np_ = model.nparts(off, ln)
                key = (case["mode"], kinds, min(np_, 3), "tail" if off + ln >= size else "")
                keys.add(key)
                if np_ >= 2:
                    ntkeys.add(key)
                if got != want:
                    if len(got) != len(want):
                        viol = v("short" if len(got) < len(want) else "long", f"{op}: got {len(got)} bytes, want {len(want)}")
                    else:
                        i = first_mismatch(got, want)
                        s0 = i - ((off + i) % 16)
                        s0 = s0 + 16 if s0 < 0 else s0
                        viol = v("mismatch", f"{op}: first wrong byte at +{i} (disk offset {off + i}): got {describe(got, s0)}, want {describe(want, s0)}")
                    break
    res = RunResult(log, viol)
    res.keys, res.nontrivial_keys = keys, ntkeys
    res.probes["extents.mode_" + case["mode"]] = 1
    res.probes["extents.n_%d" % min(len(case["exts"]), 8)] = 1
    for k in kinds:
        res.probes["extents.kind_" + k] = 1
    if case.get("fault"):
        res.probes["extents.fault_" + case["fault"]] = 1
    if any(x["cfg"].get("file_offset") for x in case["exts"]):
        res.probes["extents.flat_with_file_offset"] = 1
    if any(x.get("shared") for x in case["exts"]):
        res.probes["extents.flat_extents_sharing_one_file"] = 1
    if any(x["cfg"]["nsectors"] % 16 for x in case["exts"]):
        res.probes["extents.extent_not_multiple_of_16_sectors"] = 1
    res.faults.update(world.faults_fired)
    return res


SHRINK_LISTS = ["cops"]


def simplify(case):
    exts = case["exts"]
    if len(exts) > 1 and not case.get("fault"):
        for i in range(len(exts)):
            c = dict(case, exts=exts[:i] + exts[i + 1 :])
            if case["mode"] == "hdd":
                c["order"] = sorted(range(len(c["exts"])), key=lambda k: 0)
            yield c
    for i, x in enumerate(exts):
        for j in range(len(x["ops"])):
            ne = [dict(e) for e in exts]
            ne[i]["ops"] = x["ops"][:j] + x["ops"][j + 1 :]
            yield dict(case, exts=ne)
