"""C15 (encrypted VMX) and C16 (ESXi envelope + keystore): round trip against stub sealers, and tamper-fault
enumeration over every byte of every authenticated field.

Fault-free runs: the real reader must recover exactly what the stub sealer sealed (every cipher / MAC / KDF /
iteration count / salt and content length; every attribute type and order, payload length and padding, with and
without associated data; CLI output on the simulated namespace).  Tamper faults: one byte of the wrapped key, the
encrypted configuration, their MACs, the envelope attributes, ciphertext, tag, tag size, AAD or key is altered -
the call must raise, return nothing, and (VMX) leave the visible configuration unchanged."""
from __future__ import annotations

import base64
import hashlib
import copy
import sys
import uuid

from hvsim import fixtures
from hvsim.core import BudgetExceeded, RunResult, Violation, metered, rng_for
from hvsim.simfs import MONITOR, SimFile, monitored
from hvsim.world import World
from hvsim.writers import crypto as W

INDEXED = True
STEP_LIMIT = 3_000_000
_plans = {}
MASKS_QUICK = (0x01, 0x80, 0xFF)

# ---------------------------------------------------------------------------------------------------------
# C15 - VMX
# ---------------------------------------------------------------------------------------------------------


PAD_K = 70000


def vmx_cfg(seed: int, k: int) -> dict:
    rng = rng_for(seed, "vmxcfg", k)
    ciphers, macs, kdfs = sorted(W.CIPHERS), sorted(W.MACS), sorted(W.KDFS)
    cfg = {
        "cipher": ciphers[k % 3], "mac": macs[(k // 3) % 3], "kdf": kdfs[(k // 9) % 2],
        "data_cipher": ciphers[(k // 18 + k) % 3],
        "rounds": rng.choice([1, 2, 10, 1000, 5000]) if k % 5 == 0 else rng.choice([1, 3, 17]),
        "salt_len": rng.choice([1, 8, 16, 16, 32, 33]),
        "npairs": rng.choice([1, 1, 2, 3, 4]), "which": 0, "upper": rng.random() < 0.3,
        "passphrase": rng.choice(["password", "pässwörd", "p", "correct horse battery staple", "P@ss:w/ord,(1)", "x" * 70,
                                  "ends with newline\n", "crlf\r\n", " padded ", "tab\tinside", "a+b%2Bc", "e\u0301"]),
        # how values inside the crypto dictionaries are quoted: fully, or only where the syntax needs it (as the products do)
        "dict_style": rng.choice(["full", "vmware", "vmware"]),
        "seed": rng.getrandbits(40), "text_len": 40 + (k * 7 + rng.randrange(16)) % 64,
    }
    cfg["which"] = rng.randrange(cfg["npairs"])
    if k >= PAD_K:
        cfg["text_len"] = 96  # a cleartext that fills its last block: the final ciphertext block holds padding only
        cfg["rounds"] = min(cfg["rounds"], 3)
    return cfg


def _salt(cfg, right, rb):
    s = rb(cfg["salt_len"])  # drawn in any case, so that the other random fields do not depend on fixed_salt
    if right and cfg.get("fixed_salt"):
        return bytes.fromhex(cfg["fixed_salt"])
    return s


def build_vmx(cfg: dict):
    """Returns (vmx text, expected attr after unlock, outer attr, blobs) for a config."""
    rng = rng_for("vmxbuild", cfg["seed"])

    def rb(n):
        return bytes(rng.getrandbits(8) for _ in range(n))

    data_key = rb(W.CIPHERS[cfg["data_cipher"]])
    pairs = []
    blobs = []
    for i in range(cfg["npairs"]):
        right = i == cfg["which"]
        pw = cfg["passphrase"] if right else "other-%d" % i
        dk = data_key if right else rb(32)
        # every pair names its own MAC; encryption.data is sealed with the MAC of the pair that holds its key
        text, blob = W.keysafe_pair(pw, cfg["kdf"] if right else rng.choice(sorted(W.KDFS)), cfg["cipher"] if right else rng.choice(sorted(W.CIPHERS)),
                                    cfg["rounds"] if right else 2, _salt(cfg, right, rb), cfg["mac"] if right else rng.choice(sorted(W.MACS)), dk,
                                    cfg["data_cipher"] if right else "AES-256", rb(8), rb(16), cfg["upper"], cfg.get("dict_style", "full"))
        pairs.append(text)
        blobs.append(blob)
    inner = []
    lines = ['.encoding = "UTF-8"']
    inner.append((".encoding", "UTF-8"))
    keys = ["displayName", "guestOS", "scsi0.present", "scsi0:0.fileName", "memsize", "uuid.bios", "dataFileKey", "ethernet0.address"]
    for kname in keys[: 2 + cfg["seed"] % 6]:
        val = rng.choice(["TRUE", "x.vmdk", "Virtual Disk 1.vmdk", "2048", "56 4d aa", "ümlaut", "a=b"])
        lines.append(f'{kname} = "{val}"')
        inner.append((kname, val))
    text = "\n".join(lines) + "\n"
    # a trailing comment brings the length to the wanted residue mod 16 (every PKCS#7 padding value occurs)
    pad = (cfg["text_len"] - (len(text.encode()) + 2)) % 16
    text += "#" + "x" * pad + "\n"
    data_blob = W.seal_config(data_key, rb(16), text, cfg["mac"])
    outer = [(".encoding", "UTF-8"), ("displayName", "Encrypted VM"), ("vmx.keep", "outer value")]
    ks = W.keysafe(pairs)
    vmx = W.vmx_text(outer, ks, data_blob)
    expected = {}
    for k_, v_ in outer:
        expected[k_.lower()] = v_
    expected["encryption.keysafe"] = ks
    expected["encryption.data"] = base64.b64encode(data_blob).decode()
    for line in text.split("\n"):
        line = line.strip()
        if not line or line.startswith("#"):
            continue
        k_, _, v_ = line.partition("=")
        expected[k_.strip().lower()] = v_.strip(' "')
    return vmx, expected, pairs, blobs, data_blob


def _c15_plan(tier, verif_seed):
    ncfg = 54 if tier == "quick" else 216
    ntamper_cfg = 6 if tier == "quick" else 36
    masks = MASKS_QUICK if tier == "quick" else tuple(range(1, 256, 2 if tier == "thorough" else 1))
    plan = []
    for k in range(ncfg):
        plan.append((k, ["none"]))
    for k in range(ntamper_cfg):
        cfg = vmx_cfg(verif_seed, k * 9 + k % 9)
        cfg["rounds"] = min(cfg["rounds"], 20)
        _, _, pairs, blobs, data_blob = build_vmx(cfg)
        kk = k * 9 + k % 9
        stride = 1 if tier == "quick" else 1
        for pos in range(0, len(blobs[cfg["which"]]), stride):
            for m in (masks if tier == "quick" else masks[:: max(1, len(masks) // 16)]):
                plan.append((kk, ["wrap", pos, m]))
        for pos in range(len(data_blob)):
            for m in (masks if tier == "quick" else masks[:: max(1, len(masks) // 16)]):
                plan.append((kk, ["data", pos, m]))
        for variant in ("prefix", "case", "empty", "unicode", "suffix", "other_pair", "newline", "crlf", "stripped", "lead_space", "normalised"):
            plan.append((kk, ["pass", variant]))
        for seqk in ("wrong_then_right", "right_then_wrong", "right_twice", "wrong_wrong_right"):
            plan.append((kk, ["seq", seqk]))
        for other in range(3):
            for order in (0, 1):
                plan.append((kk, ["twofiles", other, order]))
        for nb in (1, 2, 3, 4, 5, 8, 12, 15, 16, 17, 20, 32):
            # the tail of a MAC-protected value is lost (any number of bytes, not only whole cipher blocks)
            plan.append((kk, ["trunc_data", nb]))
            plan.append((kk, ["trunc_wrap", nb]))
    # the final ciphertext block of a cleartext that fills its last block decrypts to padding only, which the MAC (over the cleartext)
    # does not cover: every byte of that block under every one of the 255 masks (a reader that only looks at the last padding byte
    # accepts about one in 256 of these)
    for j in range(3 if tier == "quick" else 9):
        kk = PAD_K + j * 5
        cfg = vmx_cfg(verif_seed, kk)
        _, _, pairs, blobs, data_blob = build_vmx(cfg)
        macsize = W.MACS[cfg["mac"]][1]
        for pos in range(len(data_blob) - macsize - 16, len(data_blob) - macsize):
            for m in range(1, 256):
                plan.append((kk, ["data", pos, m]))
        wb = blobs[cfg["which"]]
        for pos in range(len(wb) - macsize - 16, len(wb) - macsize):
            for m in range(1, 256, 4):
                plan.append((kk, ["wrap", pos, m]))
    return plan


def _other_form(pw: str) -> str:
    """The same text in another Unicode normalisation form (a different byte string, hence a different passphrase)."""
    import unicodedata

    for form in ("NFD", "NFC"):
        o = unicodedata.normalize(form, pw)
        if o != pw:
            return o
    return pw + "\u0301"


def _run_c15(case, world, log, v):
    from dissect.hypervisor.descriptor.vmx import VMX

    cfg = vmx_cfg(case["verif_seed"], case["k"])
    if case["tamper"][0] != "none":
        cfg["rounds"] = min(cfg["rounds"], 20)
    vmx_text, expected, pairs, blobs, data_blob = build_vmx(cfg)
    t = case["tamper"]
    pw = cfg["passphrase"]
    if t[0] == "wrap":
        b = bytearray(blobs[cfg["which"]])
        b[t[1]] ^= t[2]
        newpair = W.pair_text_from_blob(pairs[cfg["which"]], bytes(b), cfg["upper"])
        vmx_text = vmx_text.replace(pairs[cfg["which"]], newpair)
    elif t[0] == "data":
        b = bytearray(data_blob)
        b[t[1]] ^= t[2]
        vmx_text = vmx_text.replace(base64.b64encode(data_blob).decode(), base64.b64encode(bytes(b)).decode())
    elif t[0] == "trunc_data":
        vmx_text = vmx_text.replace(base64.b64encode(data_blob).decode(), base64.b64encode(data_blob[: -t[1]]).decode())
    elif t[0] == "trunc_wrap":
        newpair = W.pair_text_from_blob(pairs[cfg["which"]], blobs[cfg["which"]][: -t[1]], cfg["upper"])
        vmx_text = vmx_text.replace(pairs[cfg["which"]], newpair)
    elif t[0] == "pass":
        pw = {"prefix": pw[:-1], "case": pw.swapcase() if pw.swapcase() != pw else pw + "A", "empty": "", "unicode": pw + "é",
              "suffix": pw + " ", "newline": pw + "\n", "crlf": pw + "\r\n", "lead_space": " " + pw,
              "stripped": pw.strip() if pw.strip() != pw else pw + "\t",
              "normalised": _other_form(pw),
              "other_pair": "other-%d" % ((cfg["which"] + 1) % max(cfg["npairs"], 2)) if cfg["npairs"] > 1 else "other-9"}[t[1]]
    world.faults_fired["tamper_" + t[0]] += 0 if t[0] == "none" else 1
    if t[0] == "twofiles":
        # two configurations in one process that share passphrase, salt, rounds and KDF but wrap with different ciphers (a
        # re-keyed copy of the same VM): each must unlock to its own content, in either order
        ciphers = sorted(W.CIPHERS)
        cfg2 = dict(cfg, cipher=ciphers[(ciphers.index(cfg["cipher"]) + 1 + t[1] % 2) % 3], seed=cfg["seed"] ^ 0x5A5A, npairs=1, which=0)
        salt = hashlib.sha256(b"salt%d" % cfg["seed"]).digest()[: cfg["salt_len"]]
        cfg1 = dict(cfg, fixed_salt=salt.hex())
        cfg2["fixed_salt"] = salt.hex()
        if t[1] == 2:
            cfg2["kdf"] = sorted(W.KDFS)[(sorted(W.KDFS).index(cfg["kdf"]) + 1) % 2]
        pair_ = [cfg1, cfg2] if t[2] == 0 else [cfg2, cfg1]
        for n_f, c_ in enumerate(pair_):
            text_, expected_, _, _, _ = build_vmx(c_)
            vm = VMX.parse(text_)
            raised = None
            try:
                with metered(STEP_LIMIT, "loop"):
                    vm.unlock_with_phrase(pw)
            except BudgetExceeded:
                return v("budget", "unlock did not finish within the step budget"), cfg
            except Exception as e:
                raised = e
            log.add("reader", "unlock-file", [case["k"], t, n_f], "raised:" + type(raised).__name__ if raised else "ok")
            if raised is not None:
                return v("sequence-right-rejected", f"file {n_f + 1} of two ({c_['cipher']}/{c_['kdf']}, same passphrase and salt as the other file) "
                                                    f"raised {type(raised).__name__}: {raised}"), cfg
            if vm.attr != expected_:
                return v("sequence-differs", f"file {n_f + 1} of two: unlocked configuration differs"), cfg
        return None, cfg
    if t[0] == "seq":
        # several unlock attempts on one parsed object: results may depend only on the passphrase given to each call
        vm = VMX.parse(vmx_text)
        attempts = {"wrong_then_right": ["x" + pw, pw], "right_then_wrong": [pw, pw + "x"], "right_twice": [pw, pw],
                    "wrong_wrong_right": ["", pw[:-1] + "Z", pw]}[t[1]]
        for n_att, att in enumerate(attempts):
            before = copy.deepcopy(vm.attr)
            raised = None
            try:
                with metered(STEP_LIMIT, "loop"):
                    vm.unlock_with_phrase(att)
            except BudgetExceeded:
                return v("budget", "unlock did not finish within the step budget"), cfg
            except Exception as e:
                raised = e
            log.add("reader", "unlock-seq", [case["k"], t[1], n_att], "raised:" + type(raised).__name__ if raised else "ok")
            if att == pw:
                if raised is not None:
                    return v("sequence-right-rejected", f"attempt {n_att + 1} of {t[1]} used the correct passphrase and raised {type(raised).__name__}: {raised}"), cfg
                if vm.attr != expected:
                    return v("sequence-differs", f"attempt {n_att + 1} of {t[1]}: unlocked configuration differs"), cfg
            else:
                if raised is None:
                    return v("sequence-wrong-accepted", f"attempt {n_att + 1} of {t[1]} used a wrong passphrase and succeeded"), cfg
                if vm.attr != before:
                    return v("partial-update", f"attempt {n_att + 1} of {t[1]} raised but the visible configuration changed"), cfg
        return None, cfg
    vm = VMX.parse(vmx_text)
    before = copy.deepcopy(vm.attr)
    raised = None
    try:
        with metered(STEP_LIMIT, "loop"):
            vm.unlock_with_phrase(pw)
    except BudgetExceeded:
        return v("budget", "unlock did not finish within the step budget"), cfg
    except Exception as e:
        raised = e
    log.add("reader", "unlock", [case["k"], t], "raised:" + type(raised).__name__ if raised else "ok")
    sigbits = f"{cfg['cipher']}/{cfg['mac']}/{cfg['kdf']}"
    if t[0] == "none":
        if raised is not None:
            return v("roundtrip-raised", f"unlock with the correct passphrase raised {type(raised).__name__}: {raised} ({sigbits}, rounds {cfg['rounds']}, "
                                         f"{cfg['npairs']} pairs)"), cfg
        if vm.attr != expected:
            diff = [k for k in set(vm.attr) | set(expected) if vm.attr.get(k) != expected.get(k)]
            return v("roundtrip-differs", f"unlocked configuration differs in {sorted(diff)[:4]} ({sigbits})"), cfg
        return None, cfg
    if raised is None:
        return v("tamper-accepted", f"unlock succeeded after {t} ({sigbits})"), cfg
    if vm.attr != before:
        return v("partial-update", f"unlock raised after {t} but the visible configuration changed"), cfg
    return None, cfg


# ---------------------------------------------------------------------------------------------------------
# C16 - envelope / keystore
# ---------------------------------------------------------------------------------------------------------


FILL_K = 50000
FILL_TOS = [4096, 4095, 4097, 8192, 8191, 4092, 4093]
BIG_K = 100000
_M = 1 << 20
BIG_LENS = [4 * _M - 4096 - 1, 4 * _M - 4096, 4 * _M - 4095, 4 * _M - 100, 4 * _M - 1, 4 * _M, 4 * _M + 1, 8 * _M - 2000, 8 * _M - 4096, 1 * _M - 50,
            2 * _M - 4095, 12 * _M - 1, 16 * _M - 3000, 3 * _M + 12345, 20 * _M + 5, 33 * _M]


def env_cfg(seed: int, k: int) -> dict:
    rng = rng_for(seed, "envcfg", k)
    plen = [0, 1, 15, 16, 17, 511, 512, 4095, 4096, 4097, 8192, 10000, 94293 % 20000][k % 13] if k < 39 else rng.randrange(0, 30000)
    fill_to = 0
    if FILL_K <= k < BIG_K:
        # attribute records that end exactly at, one byte before, and one byte after a header block boundary
        fill_to = FILL_TOS[(k - FILL_K) % len(FILL_TOS)]
        plen = [100, 4096, 5000][(k - FILL_K) % 3]
    if k >= BIG_K:
        # payloads around the sizes at which a reader is likely to cut its work into pieces (1, 2, 4, 8 MiB), so that the
        # padding, the footer block or both fall on either side of such a boundary
        plen = BIG_LENS[(k - BIG_K) % len(BIG_LENS)]
    extra = []
    names = ["vmware.extra", "x", "vmware.some.long.attribute.name", "u"]
    types = [0x1, 0x2, 0x3, 0x4, 0x5, 0x6, 0x7, 0x8, 0x9, 0xA, 0xB, 0xC]
    for i in range(rng.choice([0, 0, 1, 2, 3])):
        extra.append([names[i % 4] + str(i), types[(k + i) % 12], rng.choice([0, 0, 1, 0x80])])
    if k < 12:
        extra = [["vmware.t%d" % k, types[k], 0]]
    n = 4 + len(extra)
    order = list(range(n))
    if k % 3:
        rng.shuffle(order)
    return {"plen": plen, "extra": extra, "order": order, "aad": [None, "ESXConfiguration", "x", "a much longer associated data string " * 3][k % 4],
            "padding": None if k % 5 else rng.choice([0, 1, 100, 4095, 5000]), "filler": rng.choice([0, 0xA5, 0xFF]), "seed": rng.getrandbits(40),
            "ks_style": (k * 7) % 64, "fill_to": fill_to}


def build_env(cfg: dict):
    rng = rng_for("envbuild", cfg["seed"])

    def rb(n):
        return bytes(rng.getrandbits(8) for _ in range(n))

    key_id, data1, data2 = rb(16), rb(rng.choice([16, 16, 32, 7])), rb(rng.choice([16, 16, 24]))
    key = W.keystore_key(data1, data2)
    payload = rb(cfg["plen"]) if cfg["plen"] <= 65536 else (rb(65521) * (cfg["plen"] // 65521 + 1))[: cfg["plen"]]
    extra = []
    for name, typ, flag in cfg["extra"]:
        if typ == W.T_STRING:
            val = rng.choice(["", "value", "ünï"])
        elif typ == W.T_BYTES:
            val = rb(rng.choice([0, 1, 12, 40]))
        elif typ == 0x9:
            val = 1.5
        elif typ == 0xA:
            val = -2.25
        else:
            import struct as _s

            size = _s.calcsize(W.SCALARS[typ])
            val = rng.getrandbits(8 * size - 1)
            if typ in (0x5, 0x6, 0x7, 0x8) and rng.random() < 0.5:
                val = -val
        extra.append((name, typ, flag, val))
    aad = cfg["aad"].encode() if cfg["aad"] else None
    blob, layout = W.seal_envelope(payload, key, rb(12), str(uuid.UUID(bytes=key_id)), extra, cfg["order"], aad, cfg["padding"], cfg["filler"],
                                   cfg.get("fill_to", 0))
    ks_text = W.keystore_text(key_id, data1, data2, cfg["ks_style"])
    return blob, layout, payload, key, aad, ks_text, key_id


def _c16_plan(tier, verif_seed):
    ncfg = 40 if tier == "quick" else 200
    ntamper = 5 if tier == "quick" else 30
    plan = []
    for k in range(ncfg):
        plan.append((k, ["none"]))
        if k % 4 == 0:
            plan.append((k, ["cli"]))
        if k % 8 == 0:
            plan.append((k, ["keystore"]))
    for j in range(len(FILL_TOS) * (1 if tier == "quick" else 3)):
        plan.append((FILL_K + j, ["none"]))
        if j % 3 == 0:
            plan.append((FILL_K + j, ["cli"]))
    for j in range(8 if tier == "quick" else len(BIG_LENS) * 2):
        plan.append((BIG_K + j, ["none"]))
        if j % 2 == 0:
            plan.append((BIG_K + j, ["cli"]))
    for j in range(ntamper):
        k = j * 7 + 1
        cfg = env_cfg(verif_seed, k)
        blob, layout, payload, key, aad, ks_text, key_id = build_env(cfg)
        a0, a1 = layout["attr_span"]
        # attribute records: every byte that belongs to a record's type / flag / name / value (not the 2 reserved bytes)
        reserved = set()
        pos = a0
        raw = blob
        for name, typ, flag, value in layout["attrs"]:
            reserved.update((pos + 2, pos + 3))
            pos += 4 + len(name.encode()) + 1
            if typ == W.T_STRING:
                pos += len(value.encode()) + 1
            elif typ == W.T_BYTES:
                pos += 8 + len(value)
            else:
                import struct as _s

                pos += _s.calcsize(W.SCALARS[typ])
        masks = MASKS_QUICK if tier == "quick" else (0x01, 0x02, 0x10, 0x80, 0xFF, 0x55)
        for p in range(a0, a1):
            if p in reserved:
                continue
            for m in masks:
                plan.append((k, ["byte", p, m, "attr"]))
        ct0, ctn = layout["ct_off"], layout["ct_len"]
        pts = sorted(set(list(range(ct0, min(ct0 + 64, ct0 + ctn))) + list(range(max(ct0, ct0 + ctn - 600), ct0 + ctn, 7)) +
                         [ct0 + (i * 997) % ctn for i in range(40 if tier == "quick" else 400)]))
        for p in pts:
            plan.append((k, ["byte", p, masks[p % len(masks)], "ciphertext"]))
        for p in range(layout["tag_off"], layout["tag_off"] + 16):
            for m in masks:
                plan.append((k, ["byte", p, m, "tag"]))
        for p in range(layout["tagsize_off"], layout["tagsize_off"] + 4):
            plan.append((k, ["byte", p, 0x01, "tagsize"]))
            plan.append((k, ["byte", p, 0xFF, "tagsize"]))
        for val in (0, 4, 8, 12, 15, 17, 32):
            plan.append((k, ["tagsize_set", val]))
        for p in range(layout["footver_off"], layout["footver_off"] + 4):
            plan.append((k, ["byte", p, 0x01, "footer_version"]))
        for variant in ("flip_first", "flip_last", "truncate", "extend", "none_vs_some"):
            plan.append((k, ["aad", variant]))
        for variant in ("flip", "zero", "short", "other"):
            plan.append((k, ["key", variant]))
        plan.append((k, ["cli_tampered", 0]))
    return plan


def _run_c16(case, world, log, v):
    from pathlib import Path

    from dissect.hypervisor.util.envelope import Envelope, KeyStore

    cfg = env_cfg(case["verif_seed"], case["k"])
    blob, layout, payload, key, aad, ks_text, key_id = build_env(cfg)
    t = case["tamper"]
    d = world.root + "/esx"
    use_key, use_aad = key, aad
    if t[0] == "byte":
        b = bytearray(blob)
        b[t[1]] ^= t[2]
        blob2 = bytes(b)
    elif t[0] == "tagsize_set":
        import struct as _s

        b = bytearray(blob)
        b[layout["tagsize_off"] : layout["tagsize_off"] + 4] = _s.pack("<I", t[1])
        blob2 = bytes(b)
    else:
        blob2 = blob
    if t[0] == "aad":
        base = aad or b""
        use_aad = {"flip_first": bytes([base[0] ^ 1]) + base[1:] if base else b"\x01", "flip_last": base[:-1] + bytes([base[-1] ^ 0x80]) if base else b"\x80",
                   "truncate": base[:-1] if len(base) > 1 else b"zz", "extend": base + b"\0", "none_vs_some": None if base else b"ESXConfiguration"}[t[1]]
    if t[0] == "key":
        use_key = {"flip": bytes([key[0] ^ 1]) + key[1:], "zero": bytes(32), "short": key[:16], "other": bytes(reversed(key))}[t[1]]
    f = SimFile()
    f.write(0, blob2)
    world.fs.add(d + "/state.tgz.ve", f)
    kf = SimFile()
    kf.write(0, ks_text.encode())
    world.fs.add(d + "/encryption.info", kf)
    world.faults_fired["tamper_" + (t[3] if t[0] == "byte" else t[0])] += 0 if t[0] in ("none", "cli", "keystore") else 1
    sig = f"plen={cfg['plen']} extra={[e[1] for e in cfg['extra']]} aad={bool(aad)}"

    if t[0] == "keystore":
        ks = KeyStore.from_text(Path(d + "/encryption.info").read_text())
        ks2 = KeyStore.from_text("\n".join(reversed(ks_text.strip().split("\n"))) + "\n")
        log.add("reader", "keystore", case["k"], ks.key)
        if ks.key != key or ks2.key != key:
            return v("keystore-key", f"derived key differs from PBKDF2-HMAC-SHA256(data1||salt, data2) ({sig})"), cfg
        if ks.id != str(uuid.UUID(bytes=key_id)):
            return v("keystore-id", f"keystore id {ks.id} != stored {uuid.UUID(bytes=key_id)}"), cfg
        # a second keystore with the same key id but other stored values (a re-keyed host): its key is a function of ITS values
        r2 = rng_for("ks2", cfg["seed"])
        d1b, d2b = bytes(r2.getrandbits(8) for _ in range(16)), bytes(r2.getrandbits(8) for _ in range(16))
        ks3 = KeyStore.from_text(W.keystore_text(key_id, d1b, d2b, cfg["ks_style"]))
        if ks3.key != W.keystore_key(d1b, d2b):
            return v("keystore-key-stale", "a second keystore with the same keyId but different data1/data2 yields the first keystore's key"), cfg
        ks4 = KeyStore.from_text(Path(d + "/encryption.info").read_text())
        if ks4.key != key:
            return v("keystore-key-stale", "re-parsing the first keystore after another one yields a different key"), cfg
        return None, cfg

    if t[0] in ("cli", "cli_tampered"):
        from dissect.hypervisor.tools import envelope as tool

        if t[0] == "cli_tampered":
            b = bytearray(blob)
            b[layout["ct_off"] + 5] ^= 0x10
            f2 = SimFile()
            f2.write(0, bytes(b))
            world.fs.add(d + "/state.tgz.ve", f2)
        out = d + "/out.tgz"
        world.fs.declared_outputs.add(out)
        MONITOR.reset()
        argv = sys.argv
        sys.argv = ["envelope-decrypt", d + "/state.tgz.ve", "--keystore", d + "/encryption.info", "--output", out]
        raised = None
        try:
            with monitored():
                try:
                    with metered(STEP_LIMIT * 4, "loop"):
                        tool.main()
                except SystemExit as e:
                    raised = e if e.code else None
                except Exception as e:
                    raised = e
        finally:
            sys.argv = argv
        log.add("reader", "cli", case["k"], "raised:" + type(raised).__name__ if raised else "ok")
        if MONITOR.mutations:
            return v("cli-wrote-elsewhere", f"CLI produced mutation events: {MONITOR.mutations[:2]}"), cfg
        written = world.fs.files[out].pread(0, 1 << 26) if out in world.fs.files else None
        if t[0] == "cli_tampered" or aad:
            # must fail (tampered, or the envelope needs AAD the CLI cannot supply); nothing of the payload may be written
            if raised is None:
                return v("cli-tamper-accepted", f"CLI succeeded on {'a tampered envelope' if t[0] == 'cli_tampered' else 'an envelope sealed with AAD'}"), cfg
            if written:
                return v("cli-partial-output", f"CLI failed but left {len(written)} bytes in the output file"), cfg
            return None, cfg
        if raised is not None:
            return v("cli-raised", f"CLI raised {type(raised).__name__}: {raised} ({sig})"), cfg
        if written != payload:
            return v("cli-output-differs", f"CLI wrote {len(written or b'')} bytes, payload has {len(payload)} ({sig})"), cfg
        return None, cfg

    raised = None
    result = None
    # tampered envelopes are also opened while a read call fails once (the k-th of the handle, k from the case index): a fault
    # may make the open fail, it may never switch a check off
    eio_k = (case.get("index", 0) % 9) if t[0] != "none" else 0
    try:
        with metered(STEP_LIMIT, "loop"):
            fh = world.handle(d + "/state.tgz.ve")
            if 1 <= eio_k <= 6:
                fh.eio_at, fh.fault_kind = eio_k, "eio"
            ev = Envelope(fh)
            fh.eio_at = None
            result = ev.decrypt(use_key, aad=use_aad)
    except BudgetExceeded:
        return v("budget", "decrypt did not finish within the step budget"), cfg
    except Exception as e:
        raised = e
    log.add("reader", "decrypt", [case["k"], t], "raised:" + type(raised).__name__ if raised else result)
    if t[0] == "none":
        if raised is not None:
            return v("roundtrip-raised", f"decrypt raised {type(raised).__name__}: {raised} ({sig})"), cfg
        if result != payload:
            return v("roundtrip-differs", f"decrypt returned {len(result)} bytes, payload has {len(payload)} ({sig})"), cfg
        return None, cfg
    if raised is None:
        what = t[3] if t[0] == "byte" else t[0]
        return v("tamper-accepted:" + what, f"decrypt returned {len(result)} bytes after {t} ({sig})"), cfg
    return None, cfg


# ---------------------------------------------------------------------------------------------------------
# engine interface
# ---------------------------------------------------------------------------------------------------------


def _plan(prop, tier, verif_seed):
    key = (prop, tier, verif_seed)
    if key not in _plans:
        _plans[key] = _c15_plan(tier, verif_seed) if prop == "C15" else _c16_plan(tier, verif_seed)
    return _plans[key]


def plan_size(prop, tier, verif_seed):
    return len(_plan(prop, tier, verif_seed))


def gen_case(seed, prop, tier, index=0, verif_seed=1):
    plan = _plan(prop, tier, verif_seed)
    k, tamper = plan[index % len(plan)]
    return {"engine": "cryptosim", "prop": prop, "seed": seed, "k": k, "tamper": list(tamper), "verif_seed": verif_seed, "index": index}


def run_case(case: dict) -> RunResult:
    from hvsim.engines import monitor

    monitor.warm()
    world = World("k")
    log = world.log
    prop = case["prop"]
    sig = {"tamper": case["tamper"][0]}
    holder = {}

    def v(klass, detail):
        return Violation(prop, klass, log.seq, detail, dict(sig, klass=klass, **holder))

    with world.fs:
        if prop == "C15":
            cfg = vmx_cfg(case["verif_seed"], case["k"])
            holder["mac"] = cfg["mac"]
            viol, cfg = _run_c15(case, world, log, v)
            key = ("vmx", cfg["cipher"], cfg["mac"], cfg["kdf"], case["tamper"][0], cfg["npairs"] > 1)
        else:
            viol, cfg = _run_c16(case, world, log, v)
            t = case["tamper"]
            key = ("env", t[0], t[3] if t[0] == "byte" else (t[1] if len(t) > 1 and isinstance(t[1], str) else ""), bool(cfg["aad"]), len(cfg["extra"]), cfg["plen"] % 16)
    res = RunResult(log, viol)
    res.keys.add(key)
    if case["tamper"][0] != "none":
        res.nontrivial_keys.add(key)
    else:
        res.nontrivial_keys.add(key + ("roundtrip",))
    res.faults.update(world.faults_fired)
    res.probes["crypto.%s_%s" % (prop, case["tamper"][0])] = 1
    if prop == "C15":
        res.probes["crypto.mac_" + cfg["mac"]] = 1
        res.probes["crypto.cipher_" + cfg["cipher"]] = 1
        res.probes["crypto.kdf_" + cfg["kdf"]] = 1
    else:
        for e in cfg["extra"]:
            res.probes["crypto.attr_type_%x" % e[1]] = 1
    return res


def anchors() -> list[str]:
    """Checks of the stub sealers against the repo's real fixtures (trusted-base anchoring)."""
    out = []
    import hashlib

    from dissect.hypervisor.util.envelope import KeyStore

    txt = fixtures.raw("encryption.info").decode()
    ks = KeyStore.from_text(txt)
    import re
    from urllib.parse import unquote

    m = re.search(r"data1=([^:]+):data2=([^:]+):", txt)
    d1, d2 = base64.b64decode(unquote(m.group(1))), base64.b64decode(unquote(m.group(2)))
    out.append("keystore_key(fixture data1, data2) == documented key: %s" % (W.keystore_key(d1, d2).hex() == "ae29634dca8627013f7c7cf2d05b4d5cc444d42cd4e8acbaa4fb815dda3b3066"))
    raw = fixtures.raw("local.tgz.ve")
    from Crypto.Cipher import AES

    key = W.keystore_key(d1, d2)
    c = AES.new(key, AES.MODE_GCM, nonce=raw[512 + 4 + 10 + 8 : 512 + 4 + 10 + 8 + 12])
    c.update(raw[:4096])
    c.update(b"ESXConfiguration")
    pt = c.decrypt(raw[4096:-4096])
    try:
        c.verify(raw[-4096 + 32 : -4096 + 48])
        ok = True
    except ValueError:
        ok = False
    out.append("independent GCM decrypt of local.tgz.ve with raw header||'ESXConfiguration' as AAD verifies: %s" % ok)
    pad = int.from_bytes(pt[-8:-4], "little")
    out.append("fixture payload sha256 matches the documented one: %s" % (hashlib.sha256(pt[: -4096 - pad]).hexdigest() == "fe131620351b9fd5fc4aef219bf3211340f3742464c038e1695e7b6667f86952"))
    return out


def evidence_extra():
    try:
        return {"anchors": anchors()}
    except Exception as e:
        return {"anchors": [("anchor check failed: %r" % e)[:300]]}


SHRINK_LISTS = []


def warm_process():
    from hvsim.engines import monitor as _m

    _m.warm()
