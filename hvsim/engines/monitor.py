"""C09 - parsing never modifies evidence (dynamic part).

A broad workload drives every path-opening and handle-consuming call site of the library on the simulated
namespace, fault-free and with error-path faults (EIO on the k-th read, ENOENT/EACCES on a path, truncation, bit
flips).  Oracle: the mutation ledger stays empty - no mutating call on any caller-supplied handle, no write-mode
open on SimFS or at OS level, no remove/rename/truncate/mkdir audit event, no network event - and the version
counter of every simulated file is unchanged.  The only permitted output is the file named by the CLI's --output."""
from __future__ import annotations

import ast
import io
import os
import sys

from hvsim import fixtures
from hvsim.core import BudgetExceeded, RunResult, Violation, metered, rng_for, set_stream_align
from hvsim.engines import chains, disk, extents
from hvsim.simfs import MONITOR, SimFile, monitored
from hvsim.world import World

STEP_LIMIT = 2_000_000
KINDS = ["disk", "disk", "chains", "chains", "extents", "fixture", "hddpaths", "vmtar", "envelope", "cli", "hyperv", "text"]
REPO = os.environ.get("VERIF_REPO", "/repo")


def gen_case(seed: int, prop: str, tier: str) -> dict:
    rng = rng_for(seed, "monitor")
    kind = rng.choice(KINDS)
    case = {"engine": "monitor", "prop": prop, "seed": seed, "kind": kind, "faults": []}
    if kind == "disk":
        case["sub"] = disk.gen_case(rng.getrandbits(50), prop, tier, fmt=rng.choice(["qcow2", "vmdk", "vhdx", "vhd", "vdi", "hds"]))
    elif kind == "chains":
        case["sub"] = chains.gen_case(rng.getrandbits(50), prop, tier)
    elif kind == "extents":
        case["sub"] = extents.gen_case(rng.getrandbits(50), prop, tier)
    elif kind == "fixture":
        case["name"] = rng.choice(sorted(fixtures.DISK_FIXTURES) + ["differencing.avhdx"])
        case["reads"] = [[rng.randrange(0, 1 << 22), rng.choice([512, 4096, 65536])] for _ in range(rng.choice([1, 3, 6]))]
    elif kind == "hddpaths":
        case["branch"] = rng.choice(["relative", "abs_exists", "abs_root", "abs_parent_dir", "abs_pvm", "abs_nowhere"])
        while True:
            sub = extents.gen_case(rng.getrandbits(50), prop, tier)
            if sub["mode"] == "hdd":
                break
        sub["fault"] = None
        case["sub"] = sub
    elif kind == "vmtar":
        case["how"] = rng.choice(["name", "fileobj", "name_gz_flag", "name_after_own_write", "fileobj_after_own_write"])
        from hvsim.writers import vmtar as WT

        case["arch"] = WT.gen_cfg(rng, tier) if rng.random() < 0.7 else None
    elif kind in ("envelope", "cli"):
        case["aad"] = rng.choice([True, True, False])
        case["output_exists"] = rng.random() < 0.3
        # how the CLI is invoked: the documented form, or with the output option left out / other spellings
        # one in six envelope workloads decrypts a synthetic envelope of 4..33 MiB instead of the 100 KiB sample
        case["big_env"] = rng.randrange(14 + 7) if rng.random() < 0.2 else None  # 14.. : small payload, header of more than one block
        case["argv"] = rng.choice(["full", "full", "full", "no_output", "no_keystore", "only_envelope", "long_opts", "envelope_no_ext",
                                    "output_dir", "output_dir_no_ext"])
    elif kind == "hyperv":
        case["name"] = rng.choice(["test.vmcx", "test.VMRS"])
    else:
        case["doc"] = rng.choice(["vmx", "vmx_enc", "ovf", "vbox", "pvs", "hdd_desc"])
    # a quarter of the handle-based workloads hand the library a real io.BytesIO instead of a simulated handle: code that
    # special-cases in-memory buffers (getbuffer(), in-place transforms) must not alter the caller's bytes either
    case["bytesio"] = kind in ("disk", "envelope", "hyperv", "vmtar", "fixture") and rng.random() < 0.3
    # what the caller's handles say about themselves: a handle opened read-write ("r+b", evidence on a writable mount) must be
    # treated exactly like a read-only one - nothing may be written through it, and its mode is not a licence to open the
    # path again for writing
    case["handle_mode"] = rng.choice(["rb", "rb", "r+b", "a+b"])
    nf = rng.choice([0, 0, 1, 1, 2, 3])
    for _ in range(nf):
        f = rng.choice(["eio", "eio", "eio", "enoent", "eacces", "trunc", "flip", "flip"])
        if f == "eio":
            case["faults"].append(["eio", rng.randrange(1000), rng.choice([1, 2, 3, 4, 5, 8, 13, 21, 40, 100])])
        elif f in ("enoent", "eacces"):
            case["faults"].append([f, rng.randrange(1000)])
        elif f == "trunc":
            case["faults"].append(["trunc", rng.randrange(1000), rng.random()])
        else:
            case["faults"].append(["flip", rng.randrange(1000), rng.random(), 1 << rng.randrange(8)])
    return case


def _apply_faults(world: World, case) -> None:
    paths = sorted(world.fs.files)
    if not paths:
        return
    for f in case["faults"]:
        p = paths[f[1] % len(paths)]
        if p in world.fs.declared_outputs:
            continue
        sf = world.fs.files[p]
        if f[0] == "eio":
            world.pending_eio[p] = f[2]
        elif f[0] in ("enoent", "eacces"):
            world.fs.faults[p] = f[0]
        elif f[0] == "trunc":
            sf.trunc_at = int(sf.length * f[2])
            world.faults_fired["truncate"] += 1
        elif f[0] == "flip":
            # mostly inside the first 64 KiB, where the headers are
            off = int(min(sf.length, 1 << 16) * f[2]) if f[1] % 3 else int(sf.length * f[2])
            if off < sf.length:
                sf.add_flip(off, "xor", f[3])
                world.faults_fired["bitflip"] += 1


class _BioBook:
    """Real io.BytesIO handles given to the library, with a snapshot of their content."""

    def __init__(self):
        self.items = []

    def make(self, world, path, limit=8 << 20):
        f = world.fs.files[path]
        if f.visible_length() > limit:
            return world.handle(path)
        data = f.pread(0, f.visible_length(), 1 << 62)
        bio = io.BytesIO(data)
        bio.name = path
        self.items.append((path, bio, data))
        return bio

    def changed(self):
        out = []
        for path, bio, data in self.items:
            try:
                now = bio.getvalue()
            except Exception:
                continue
            if now != data:
                out.append(path)
        return out


def _guard(fn, world, log, what):
    """Run a piece of the workload; library exceptions are fine here, a hang is not our business (C11)."""
    try:
        with metered(STEP_LIMIT, "loop", world.step_allowance(STEP_LIMIT, 4.0, 1 << 24)):
            r = fn()
        log.add("client", what, None, "ok")
        return r
    except BudgetExceeded:
        log.add("client", what, None, "budget")
    except Exception as e:
        log.add("client", what, None, "raised:" + type(e).__name__)
    return None


_warm = False


def warm():
    """Import everything the workloads can import lazily, outside the monitored window (first imports of
    dependencies have side effects of their own, e.g. PyCryptodome runs `file` once per process)."""
    global _warm
    if _warm:
        return
    _warm = True
    import gzip  # noqa: F401
    import tarfile  # noqa: F401

    import defusedxml.ElementTree  # noqa: F401
    from Crypto.Cipher import AES  # noqa: F401

    import dissect.hypervisor  # noqa: F401
    import dissect.hypervisor.tools.envelope  # noqa: F401


def run_case(case: dict) -> RunResult:
    warm()
    world = World("w")
    log = world.log
    prop = case["prop"]
    kind = case["kind"]
    set_stream_align(8192)
    sig = {"kind": kind}
    sites = set()
    world.fs.site_log = sites
    book = _BioBook()
    H = (lambda p: book.make(world, p)) if case.get("bytesio") else (lambda p: world.handle(p))
    d = world.root + "/ev"
    if case.get("handle_mode", "rb") != "rb":
        real_on = world.on_handle

        def on_handle(h, spath, _m=case["handle_mode"]):
            real_on(h, spath)
            h.mode = _m

        world.on_handle = on_handle
    with world.fs:
        # ---- build the world (harness side, not monitored) ------------------------------------------
        work = []
        if kind == "disk":
            sub = case["sub"]
            set_stream_align(sub["align"])
            F, layers, view, img, main = disk.build(sub, world)

            def w_disk():
                if case.get("bytesio"):
                    real_handle = world.handle
                    world.handle = lambda p, named=True: book.make(world, p)
                    try:
                        s = F.open(world, main, img, sub["open"])
                    finally:
                        world.handle = real_handle
                else:
                    s = F.open(world, main, img, sub["open"])
                for op in sub["cops"]:
                    if op[0] == "r":
                        s.seek(op[1])
                        s.read(op[2])
                    else:
                        F.read_sectors(s, op[1], op[2])
                for h in [h for _, h in world.handles]:
                    pass
                return s

            work.append(("disk", w_disk))
        elif kind == "chains":
            sub = case["sub"]
            set_stream_align(sub["align"])
            open_fn, views, expect_fail, rs_fn = chains.build(sub, world)

            def w_chain():
                seen = {}
                for op in sub["cops"] or [["open", len(views) - 1]]:
                    vi = op[1]
                    if vi not in seen:
                        seen[vi] = open_fn(vi)
                    if op[0] == "r":
                        seen[vi].seek(op[2])
                        seen[vi].read(op[3])
                    elif op[0] == "rs" and rs_fn:
                        rs_fn(seen[vi], op[2], op[3])

            work.append(("chain", w_chain))
        elif kind in ("extents", "hddpaths"):
            sub = case["sub"]
            set_stream_align(sub["align"])
            main, paths, model = extents.build(sub, world)
            if kind == "hddpaths":
                _relocate_hdd(world, main, case["branch"])

            def w_ext():
                from pathlib import Path

                if sub["mode"] == "hdd":
                    from dissect.hypervisor.disk.hdd import HDD

                    s = HDD(Path(main)).open()
                else:
                    from dissect.hypervisor.disk.vmdk import VMDK

                    s = VMDK([world.handle(p) for p in paths]) if sub["mode"] == "handles" else VMDK(Path(main))
                for op in sub["cops"][:6]:
                    if op[0] == "r":
                        s.seek(op[1])
                        s.read(op[2])

            work.append(("extents", w_ext))
        elif kind == "fixture":
            p = fixtures.install(world, case["name"])

            def w_fix():
                s = fixtures.open_disk(world, case["name"], p)
                for off, ln in case["reads"]:
                    s.seek(off % max(1, s.size))
                    s.read(ln)

            work.append(("fixture", w_fix))
        elif kind == "vmtar":
            if case.get("arch"):
                from hvsim.writers import vmtar as WT

                raw, _ = WT.build(case["arch"])
                tf = SimFile()
                tf.write(0, raw)
                world.fs.add(d + "/test.vgz", tf)
            else:
                world.fs.add(d + "/test.vgz", fixtures.simfile("test.vgz"))
            gz_ok = not case.get("arch") or case["arch"]["wrap"] == "gz"

            def w_tar():
                from dissect.hypervisor.util import vmtar

                if case["how"].endswith("_after_own_write"):
                    # the caller first writes an archive of their own, to a file they name, through the same module (it passes
                    # every tarfile mode through); opening the evidence afterwards is still a read
                    out = d + "/out/report.tar"
                    world.fs.mkdir(d + "/out")
                    world.fs.declared_outputs.add(out)
                    try:
                        t0 = vmtar.open(out, mode="w")
                        t0.close()
                    except Exception:
                        pass
                if case["how"].startswith("fileobj"):
                    t = vmtar.open(fileobj=H(d + "/test.vgz"))
                elif case["how"].startswith("name") and (case["how"] != "name_gz_flag" or not gz_ok):
                    t = vmtar.open(d + "/test.vgz")
                else:
                    t = vmtar.open(d + "/test.vgz", "r:gz")
                for m in t.getmembers():
                    if m.isfile():
                        t.extractfile(m).read()

            work.append(("vmtar", w_tar))
        elif kind in ("envelope", "cli"):
            if case.get("big_env") is not None:
                from hvsim.engines import cryptosim

                j = case["big_env"]
                ecfg = cryptosim.env_cfg(case["seed"] % 1000, cryptosim.BIG_K + 2 + j if j < 14 else cryptosim.FILL_K + (j - 14))
                ecfg["aad"] = "ESXConfiguration"
                blob, _, _, _, _, ks_text, _ = cryptosim.build_env(ecfg)
                ef, kf = SimFile(), SimFile()
                ef.write(0, blob)
                kf.write(0, ks_text.encode())
                world.fs.add(d + "/local.tgz.ve", ef)
                world.fs.add(d + "/encryption.info", kf)
            else:
                world.fs.add(d + "/local.tgz.ve", fixtures.simfile("local.tgz.ve"))
                world.fs.add(d + "/encryption.info", fixtures.simfile("encryption.info"))
            out = d + "/out/decrypted.tgz"
            world.fs.mkdir(d + "/out")
            if case["output_exists"]:
                world.fs.add(out, SimFile())
            if kind == "cli":
                mode = case.get("argv", "full")
                envp = d + "/local.tgz.ve"
                if mode == "output_dir":
                    # the user names a directory, not a file: nothing in it may be created or replaced on their behalf
                    prior = SimFile()
                    prior.write(0, b"an earlier export")
                    world.fs.add(d + "/out/local.tgz", prior)
                if mode in ("envelope_no_ext", "output_dir_no_ext"):
                    envp = d + "/exhibit_0042"
                    world.fs.add(envp, world.fs.files[d + "/local.tgz.ve"])
                    world.fs.add(d + "/local.tgz", SimFile())  # a sibling a careless default output name would clobber
                args = {"full": [envp, "-ks", d + "/encryption.info", "-o", out],
                        "long_opts": [envp, "--keystore", d + "/encryption.info", "--output", out],
                        "no_output": [envp, "-ks", d + "/encryption.info"],
                        "envelope_no_ext": [envp, "-ks", d + "/encryption.info"],
                        "no_keystore": [envp, "-o", out],
                        "output_dir": [envp, "-ks", d + "/encryption.info", "-o", d + "/out"],
                        "output_dir_no_ext": [envp, "-ks", d + "/encryption.info", "-o", d],
                        "only_envelope": [envp]}[mode]
                if ("-o" in args or "--output" in args) and not mode.startswith("output_dir"):
                    world.fs.declared_outputs.add(out)

                def w_cli():
                    import contextlib

                    from dissect.hypervisor.tools import envelope as tool

                    argv = sys.argv
                    sys.argv = ["envelope-decrypt"] + args
                    try:
                        with contextlib.redirect_stderr(io.StringIO()), contextlib.redirect_stdout(io.StringIO()):
                            try:
                                tool.main()
                            except SystemExit:
                                pass
                    finally:
                        sys.argv = argv

                work.append(("cli", w_cli))
            else:

                def w_env():
                    from pathlib import Path

                    from dissect.hypervisor.util.envelope import Envelope, KeyStore

                    ks = KeyStore.from_text(Path(d + "/encryption.info").read_text())
                    ev = Envelope(H(d + "/local.tgz.ve"))
                    ev.decrypt(ks.key, aad=b"ESXConfiguration" if case["aad"] else None)

                work.append(("envelope", w_env))
        elif kind == "hyperv":
            world.fs.add(d + "/" + case["name"], fixtures.simfile(case["name"]))

            def w_hv():
                from dissect.hypervisor.descriptor.hyperv import HyperVFile

                hf = HyperVFile(H(d + "/" + case["name"]))
                hf.as_dict()

            work.append(("hyperv", w_hv))
        else:
            doc = case["doc"]
            texts = _texts()
            name = {"vmx": "a.vmx", "vmx_enc": "enc.vmx", "ovf": "a.ovf", "vbox": "a.vbox", "pvs": "config.pvs", "hdd_desc": "x.hdd/DiskDescriptor.xml"}[doc]
            f = SimFile()
            f.write(0, texts[doc])
            world.fs.add(d + "/" + name, f)

            def w_text():
                from pathlib import Path

                p = Path(d + "/" + name)
                if doc in ("vmx", "vmx_enc"):
                    from dissect.hypervisor.descriptor.vmx import VMX

                    vm = VMX.parse(p.read_text())
                    if vm.encrypted:
                        vm.unlock_with_phrase("password")
                    vm.disks()
                elif doc == "ovf":
                    from dissect.hypervisor.descriptor.ovf import OVF

                    with p.open("r") as fh:
                        list(OVF(fh).disks())
                elif doc == "vbox":
                    from dissect.hypervisor.descriptor.vbox import VBox

                    with p.open("r") as fh:
                        list(VBox(fh).disks())
                elif doc == "pvs":
                    from dissect.hypervisor.descriptor.pvs import PVS

                    with p.open("r") as fh:
                        list(PVS(fh).disks())
                else:
                    from dissect.hypervisor.disk.hdd import Descriptor

                    Descriptor(p)

            work.append(("text", w_text))
        _apply_faults(world, case)
        before = {p: (f._version, f.length) for p, f in world.fs.files.items()}
        MONITOR.reset()
        MONITOR.allowed_outputs = set(world.fs.declared_outputs)
        # ---- run the workload under the monitor -------------------------------------------------
        with monitored():
            for what, fn in work:
                _guard(fn, world, log, what)
        muts = list(MONITOR.mutations)
        net = list(MONITOR.net)
        after = {p: (f._version, f.length) for p, f in world.fs.files.items()}
    viol = None
    changed = [p for p in before if p in after and after[p] != before[p] and p not in world.fs.declared_outputs]
    created = [p for p in after if p not in before and p not in world.fs.declared_outputs]
    gone = [p for p in before if p not in after]
    if muts:
        viol = Violation(prop, "mutation:" + muts[0][0], log.seq, f"{len(muts)} mutating event(s): {muts[:3]}", dict(sig, klass="mutation:" + muts[0][0]))
    elif book.changed():
        viol = Violation(prop, "caller-buffer-changed", log.seq, f"the content of caller-supplied in-memory handle(s) changed: {book.changed()[:3]}",
                         dict(sig, klass="caller-buffer-changed"))
    elif changed or created or gone:
        viol = Violation(prop, "evidence-changed", log.seq, f"changed={changed[:3]} created={created[:3]} removed={gone[:3]}", dict(sig, klass="evidence-changed"))
    elif net:
        viol = Violation(prop, "network", log.seq, f"network events: {net[:3]}", dict(sig, klass="network"))
    elif kind == "cli":
        pass
    res = RunResult(log, viol)
    fk = tuple(sorted({f[0] for f in case["faults"]}))
    key = (kind, case.get("sub", {}).get("fmt") or case.get("sub", {}).get("kind") or case.get("doc") or case.get("name") or case.get("how") or case.get("branch"), fk)
    res.keys.add(key)
    if fk:
        res.nontrivial_keys.add(key)
    res.probes["monitor.kind_" + kind] = 1
    if book.items:
        res.probes["monitor.bytesio_handle"] = 1
    res.probes["monitor.caller_handle_mode_" + case.get("handle_mode", "rb")] = 1
    if case.get("big_env") is not None:
        res.probes["monitor.envelope_synthetic_4_to_33_MiB" if case["big_env"] < 14 else "monitor.envelope_header_at_block_boundary"] = 1
    if kind == "vmtar" and case.get("arch"):
        a = case["arch"]
        res.probes["monitor.vmtar_synthetic_" + a["wrap"] + ("_visor" if a["visor"] else "_plain")] = 1
        if any(m.get("size", 0) > (32 << 20) for m in a["members"]):
            res.probes["monitor.vmtar_member_over_32MiB"] = 1
    res.faults.update(world.faults_fired)
    for s in sites:
        res.probes["site:" + s] = 1
    for p, mode in world.fs.open_log:
        res.probes["monitor.simfs_open_mode_" + mode] = 1
    return res


def _relocate_hdd(world: World, main: str, branch: str):
    """Rewrite the descriptor so that image paths exercise each candidate branch of HDD._open_image."""
    fs = world.fs
    desc_path = main + "/DiskDescriptor.xml"
    xml = fs.files[desc_path].pread(0, 1 << 20).decode()
    hdd_dir = main  # .../vm/disk.hdd
    vm_dir = main.rsplit("/", 1)[0]
    imgs = [p for p in fs.files if p.startswith(hdd_dir + "/") and p.endswith(".hds")]
    if branch == "relative":
        return
    import re

    def repl(m):
        fn = m.group(1)
        if branch == "abs_exists":
            return f"<File>{hdd_dir}/{fn}</File>"
        if branch == "abs_root":
            return f"<File>/original/place/other.pvm/other.hdd/{fn}</File>"
        if branch == "abs_parent_dir":
            return f"<File>/original/place/other.pvm/linked.hdd/{fn}</File>"
        if branch == "abs_pvm":
            return f"<File>/original/place/golden.pvm/golden.hdd/{fn}</File>"
        return f"<File>/nowhere/at/all/{fn}</File>"

    xml2 = re.sub(r"<File>([^<]+)</File>", repl, xml)
    nf = SimFile()
    nf.write(0, xml2.encode())
    fs.add(desc_path, nf)
    if branch == "abs_parent_dir":
        for p in imgs:
            f = fs.files.pop(p)
            fs.add(vm_dir + "/linked.hdd/" + p.rsplit("/", 1)[1], f)
    elif branch == "abs_pvm":
        for p in imgs:
            f = fs.files.pop(p)
            fs.add(vm_dir.rsplit("/", 1)[0] + "/golden.pvm/golden.hdd/" + p.rsplit("/", 1)[1], f)
    elif branch == "abs_nowhere":
        pass


_TEXTS = None


def _texts():
    global _TEXTS
    if _TEXTS is None:
        from hvsim.writers import hds as WH

        _TEXTS = {
            "vmx": b'.encoding = "UTF-8"\nscsi0.present = "TRUE"\nscsi0:0.fileName = "disk.vmdk"\nide1:0.deviceType = "cdrom-image"\nide1:0.fileName = "x.iso"\n',
            "vmx_enc": fixtures.raw("encrypted.vmx"),
            "ovf": (b'<?xml version="1.0"?><Envelope xmlns="http://schemas.dmtf.org/ovf/envelope/1" xmlns:ovf="http://schemas.dmtf.org/ovf/envelope/1" '
                    b'xmlns:rasd="http://schemas.dmtf.org/wbem/wscim/1/cim-schema/2/CIM_ResourceAllocationSettingData"><References>'
                    b'<File ovf:href="disk1.vmdk" ovf:id="file1"/></References><DiskSection><Disk ovf:diskId="vmdisk1" ovf:fileRef="file1"/></DiskSection>'
                    b'<VirtualSystem ovf:id="vm"><VirtualHardwareSection><Item><rasd:ResourceType>17</rasd:ResourceType>'
                    b'<rasd:HostResource>ovf:/disk/vmdisk1</rasd:HostResource></Item></VirtualHardwareSection></VirtualSystem></Envelope>'),
            "vbox": (b'<?xml version="1.0"?><VirtualBox xmlns="http://www.virtualbox.org/" version="1.16"><Machine><MediaRegistry><HardDisks>'
                     b'<HardDisk uuid="{1}" location="disk.vdi" format="VDI" type="Normal"/></HardDisks></MediaRegistry></Machine></VirtualBox>'),
            "pvs": b'<?xml version="1.0"?><ParallelsVirtualMachine><Hardware><Hdd><SystemName>disk.hdd</SystemName></Hdd></Hardware></ParallelsVirtualMachine>',
            "hdd_desc": WH.descriptor_xml([{"start": 0, "end": 8, "blocksize": 8, "images": [(WH.DEFAULT_TOP, "Compressed", "x.hds")]}],
                                          [(WH.DEFAULT_TOP, WH.NULL_GUID)]).encode(),
        }
    return _TEXTS


def preload():
    from hvsim.engines import history

    history.preload()
    for n in ("test.vgz", "local.tgz.ve", "encryption.info", "test.vmcx", "test.VMRS", "encrypted.vmx", "differencing.avhdx.gz"):
        fixtures.raw(n)


def candidate_sites():
    """AST scan of the library: call sites that could open a file or invoke a mutating method (reach measure only)."""
    names = {"open", "read_text", "read_bytes", "write", "write_text", "write_bytes", "truncate", "unlink", "rename", "touch",
             "mkdir", "rmdir", "remove", "writelines"}
    out = []
    root = os.path.join(REPO, "dissect", "hypervisor")
    for dp, _, fns in os.walk(root):
        for fn in fns:
            if fn.endswith(".py"):
                p = os.path.join(dp, fn)
                try:
                    tree = ast.parse(open(p).read())
                except SyntaxError:
                    continue
                for node in ast.walk(tree):
                    if isinstance(node, ast.Call):
                        f = node.func
                        nm = f.attr if isinstance(f, ast.Attribute) else f.id if isinstance(f, ast.Name) else None
                        if nm in names:
                            out.append(f"{os.path.relpath(p, REPO)}:{node.lineno}:{nm}")
    return sorted(out)


def evidence_extra():
    return {"candidate_call_sites_ast": candidate_sites(),
            "note_sites": "probes named site:<file>:<line> are library frames that opened a path on the simulated namespace during this run; "
                          "candidate write sites in util/envelope.py operate on a private BytesIO"}


SHRINK_LISTS = ["faults"]


def warm_process():
    from hvsim.engines import monitor as _m

    _m.warm()
