"""C17 - Hyper-V VMCX/VMRS: the decoded tree equals the stored key/value tree, after every writer step and at
every crash point of the stub store writer (history cut between any two device writes)."""
from __future__ import annotations

import math
import traceback

from hvsim.core import BudgetExceeded, RunResult, Violation, metered, rng_for
from hvsim.simfs import SimFile, monitored
from hvsim.world import World
from hvsim.writers import hyperv as W

STEP_LIMIT = 3_000_000
KEYS = ["configuration", "properties", "settings", "global_settings", "version", "name", "guid", "ünïcode_key", "a", "metric", "value",
        "_83f8638b-8dca-4152-9eda-2ca8b33039b4_", "VDEVVersion", "k" * 40, "日本", "type", "enabled", "x" * 200]


def _value(rng):
    t = rng.choice(["int", "uint", "double", "string", "string", "array", "bool"])
    if t == "int":
        v = rng.choice([0, 1, -1, 2304, -(1 << 63), (1 << 63) - 1, rng.getrandbits(62) - (1 << 61)])
    elif t == "uint":
        v = rng.choice([0, 1, (1 << 64) - 1, 1 << 63, rng.getrandbits(64)])
    elif t == "double":
        v = rng.choice([0.0, 1.5, -2.25, 1e300, 3.141592653589793, float(rng.getrandbits(30)) / 7])
    elif t == "string":
        n = rng.choice([0, 1, 5, 36, 100, 0x3FF, 0x400, 0x401, 0x7FE // 2, 2000])
        alphabet = rng.choice(["abcXYZ019-{};\\", "äöü€", "日本語テキスト", "a"])
        v = "".join(rng.choice(alphabet) for _ in range(n))
    elif t == "array":
        n = rng.choice([0, 1, 16, 255, 0x7FF, 0x800, 0x801, 5000])
        v = bytes(rng.getrandbits(8) for _ in range(min(n, 64))) * (n // 64 + 1)
        v = v[:n]
    else:
        v = rng.random() < 0.5
    return t, v


def gen_case(seed: int, prop: str, tier: str) -> dict:
    rng = rng_for(seed, "store")
    nops = rng.choice([1, 2, 4, 8, 16] if tier == "quick" else [2, 4, 8, 16, 32, 64])
    paths = []
    ops = []
    roots = [rng.choice(KEYS[:4])]
    for _ in range(nops):
        r = rng.random()
        if r < 0.7 or not paths:
            depth = rng.choice([1, 2, 2, 3, 4, 6])
            if paths and rng.random() < 0.6:
                base = rng.choice(paths)
                base = base[: rng.randint(1, len(base))]
            else:
                base = (rng.choice(roots),)
            p = list(base)
            while len(p) < depth + 1:
                p.append(rng.choice(KEYS))
            p = tuple(p[:7])
            if len(p) == 1:
                ops.append(["set", list(p), "node", None])
            else:
                t, v = _value(rng) if rng.random() < 0.8 else ("node", None)
                ops.append(["set", list(p), t, v])
            paths.append(p)
        elif r < 0.82:
            p = rng.choice(paths)
            p = p[: rng.randint(1, len(p))]
            ops.append(["del", list(p)])
        elif r < 0.92:
            ops.append(["rewrite", rng.randrange(1, 13)])
        else:
            ops.append(["flip"])
    cfg = {"seq0": rng.choice([1, 3, 7, 1000, 65000]), "max_tables": rng.choice([1, 2, 4, 12]), "gaps": rng.random() < 0.3,
           "scatter_obj": rng.random() < 0.4, "free_obj": rng.random() < 0.5, "second_objtable": rng.random() < 0.3, "reuse": rng.random() < 0.5, "stale_gap": rng.choice([1, 1, 1, 0x7FFF, 0x8000, 0x9000, 64999]),
           "stale_version": rng.choice([0x400, 0x400, 0x300, 0]), "stale_sig": rng.choice([W.SIG_HEADER, W.SIG_HEADER, 0, 0xDEADBEEF]),
           "store_seed": rng.getrandbits(40)}
    return {"engine": "storesim", "prop": prop, "seed": seed, "cfg": cfg, "ops": ops, "cuts": rng.choice(["all", "all", "final", "sample"]),
            "cut_seed": rng.getrandbits(30), "eio": rng.choice([1, 2, 3, 5, 8, 13]) if rng.random() < 0.2 else None}


def build_store(case):
    rng = rng_for("storebuild", case["cfg"]["store_seed"])
    st = W.Store(rng, case["cfg"])
    for op in case["ops"]:
        if op[0] == "set":
            path = tuple(op[1])
            # a path below a leaf cannot exist: the stub turns leaf ancestors into nodes first (what a store API would refuse is skipped)
            ok = True
            node = st.tree
            for k in path[:-1]:
                if k in node and not isinstance(node[k], dict):
                    ok = False
                    break
                node = node.get(k, {})
            if ok:
                st.set(path, op[2], op[3])
        elif op[0] == "del":
            st.delete(tuple(op[1]))
        elif op[0] == "rewrite":
            st.rewrite(op[1])
        else:
            st.flip_header()
    return st


def _eq(a, b):
    if isinstance(a, dict) and isinstance(b, dict):
        return a.keys() == b.keys() and all(_eq(a[k], b[k]) for k in a)
    if isinstance(a, float) and isinstance(b, float):
        return a == b or (math.isnan(a) and math.isnan(b))
    return type(a) is type(b) and a == b


def _diff(got, want, path=()):
    if isinstance(got, dict) and isinstance(want, dict):
        for k in sorted(set(got) | set(want), key=str):
            if k not in got:
                return f"{'/'.join(path + (k,))}: missing (stored {want[k]!r:.60})"
            if k not in want:
                return f"{'/'.join(path + (k,))}: unexpected {got[k]!r:.60}"
            d = _diff(got[k], want[k], path + (k,))
            if d:
                return d
        return None
    if not _eq(got, want):
        return f"{'/'.join(path)}: decoded {type(got).__name__} {got!r:.60}, stored {type(want).__name__} {want!r:.60}"
    return None


def run_case(case: dict) -> RunResult:
    from hvsim.engines import monitor

    monitor.warm()
    world = World("s")
    log = world.log
    prop = case["prop"]
    st = build_store(case)
    nw = len(st.writes)
    base = st.commits[0][0]
    if case["cuts"] == "all":
        cuts = list(range(base, nw + 1))
    elif case["cuts"] == "final":
        cuts = [nw]
    else:
        r = rng_for("cuts", case["cut_seed"])
        cuts = sorted({nw} | {r.randint(base, nw) for _ in range(6)})
    viol = None
    keys, ntkeys = set(), set()
    sig = {"cuts": case["cuts"]}
    commit_points = {n for n, _ in st.commits}
    with world.fs, monitored():
        for k in cuts:
            raw = W.image_at(st, k)
            want = W.tree_at(st, k)
            f = SimFile()
            f.write(0, raw)
            p = world.root + "/store/cut%d.vmcx" % k
            world.fs.add(p, f)
            try:
                with metered(STEP_LIMIT, "loop", world.step_allowance(STEP_LIMIT, 4.0, len(raw))):
                    from dissect.hypervisor.descriptor.hyperv import HyperVFile

                    fh = world.handle(p)
                    hf = HyperVFile(fh)
                    if case.get("eio") and k == cuts[-1]:
                        # fault-injecting configuration: the k-th read call made while the tree is decoded fails once. That decode
                        # may fail; the next one, through the same object, must give the stored tree (or fail), never another tree.
                        fh.eio_at, fh.fault_kind = fh.reads + case["eio"], "eio"
                        f0 = world.io_faults_fired()
                        try:
                            got = hf.as_dict()
                        except Exception:
                            if world.io_faults_fired() == f0:
                                raise
                            got = None
                            res_probe_failed = True
                        fh.eio_at = None
                        try:
                            got_again = hf.as_dict()
                        except Exception:
                            got_again = want if got is None else None
                            if got_again is None:
                                raise
                        if got is None:
                            got = got_again
                    else:
                        got = hf.as_dict()
                        got_again = hf.as_dict()  # decoding is a read: asking again gives the same tree
                    want_seq = max(st.hdr_seq) if k == nw else None
            except BudgetExceeded:
                viol = Violation(prop, "budget", log.seq, f"decode at cut {k}/{nw} did not finish", dict(sig, klass="budget"))
                break
            except Exception as e:
                tb = traceback.extract_tb(e.__traceback__)[-1]
                log.add("reader", "decode", k, "raised:" + type(e).__name__)
                viol = Violation(prop, "raised:" + type(e).__name__, log.seq,
                                 f"decode at cut {k}/{nw} raised {type(e).__name__}: {e} at {tb.filename.rsplit('/', 1)[-1]}:{tb.lineno}"[:300],
                                 dict(sig, klass="raised:" + type(e).__name__))
                break
            log.add("reader", "decode", k, repr(sorted(got))[:80])
            d = _diff(got, want) or (("second decode of the same object: " + _diff(got_again, want)) if _diff(got_again, want) else None)
            crash = k != nw
            pre = crash and k not in commit_points
            key = ("crash-pre-commit" if pre else "crash-post-commit" if crash else "final", len(st.tables), min(_depth(want), 6), _types(want))
            keys.add(key)
            if want:
                ntkeys.add(key)
            if d:
                klass = "tree-differs" + ("@crash" if crash else "")
                viol = Violation(prop, klass, log.seq, f"cut {k}/{nw} ({'before' if pre else 'at/after'} a commit point): {d}", dict(sig, klass=klass))
                break
            if want_seq is not None and hf.header.sequence_number != want_seq:
                viol = Violation(prop, "header-choice", log.seq, f"active header has sequence {hf.header.sequence_number}, highest stored is {want_seq}",
                                 dict(sig, klass="header-choice"))
                break
    res = RunResult(log, viol)
    res.keys, res.nontrivial_keys = keys, ntkeys
    res.probes["store.tables_%d" % min(len(st.tables), 12)] = 1
    res.probes["store.cuts_" + case["cuts"]] = 1
    allobj = st.obj + (st.obj2 or [])
    if any(e[0] == W.OBJ_FILE for e in allobj):
        res.probes["store.file_objects"] = 1
    if len([e for e in allobj if e[0] == W.OBJ_KEYTABLE and e[3]]) > len(st.tables):
        res.probes["store.two_versions_of_a_table_registered"] = 1
    if st.obj2 is not None:
        res.probes["store.additional_object_table"] = 1
    if st.reused:
        res.probes["store.released_space_reused"] = 1
        live = {e[1] for e in allobj if e[3] and e[0] in (W.OBJ_KEYTABLE, W.OBJ_FILE, W.OBJ_OBJTABLE)}
        if any(e[1] in live for e in allobj if e[1] and (not e[3] or e[0] == W.OBJ_FREE)):
            res.probes["store.stale_entry_names_a_live_offset"] = 1
    if case["cfg"]["stale_version"] != 0x400 or case["cfg"]["stale_sig"] != W.SIG_HEADER:
        res.probes["store.stale_header_slot_invalid"] = 1
    for t in _types(st.tree):
        res.probes["store.type_" + t] = 1
    res.faults["writer_crash"] += len([k for k in cuts if k != nw])
    res.faults.update(world.faults_fired)
    if case.get("eio"):
        res.probes["store.config_io_fault_during_decode"] = 1
    res.extra["crash_points"] = len([k for k in cuts if k != nw])
    return res


def _depth(t):
    return 1 + max((_depth(v) for v in t.values() if isinstance(v, dict)), default=0) if isinstance(t, dict) and t else 0


def _types(t, acc=None):
    acc = set() if acc is None else acc
    for v in t.values():
        if isinstance(v, dict):
            _types(v, acc)
        else:
            acc.add(type(v).__name__)
    return tuple(sorted(acc))


def anchors():
    from hvsim import fixtures

    got = W.decode(fixtures.raw("test.VMRS"))
    ok = (got.get("configuration", {}).get("properties") == {"version": 2304}
          and got["configuration"]["global_settings"]["metrics"]["devicetype"]["deviceinstance"]["metric"]["resourcetypeid"] == "70BB60D2-A9D3-46AA-B654-3DE53004B4F8"
          and got["configuration"]["_83f8638b-8dca-4152-9eda-2ca8b33039b4_"] == {"VDEVVersion": 1792})
    g2 = W.decode(fixtures.raw("test.vmcx"))
    ok2 = set(g2) == {"configuration"} and len(g2["configuration"]) == 27 and len(g2["configuration"]["manifest"]) == 39
    return [f"independent decoder recovers the documented tree of test.VMRS: {ok}", f"independent decoder recovers the documented shape of test.vmcx: {ok2}"]


def evidence_extra():
    try:
        return {"anchors": anchors()}
    except Exception as e:
        return {"anchors": [("anchor check failed: %r" % e)[:300]]}


SHRINK_LISTS = ["ops"]


def warm_process():
    from hvsim.engines import monitor as _m

    _m.warm()
