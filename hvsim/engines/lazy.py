"""C13 - lazy access: I/O proportional to the request, correct at multi-terabyte scale.

World: stub images with virtual sizes up to tens of TiB on sparse simulated files, tables/blocks/grains at file
offsets beyond 2^32 bytes and 2^32 sectors.  Oracle 1: the storage fake's byte ledger - absolute budgets for open
and per request, and a metamorphic pair: the same image with much more data allocated *outside* the requested
ranges must produce the identical ledger.  Oracle 2: content at extreme offsets equals the model."""
from __future__ import annotations

import traceback

from hvsim import gen
from hvsim.core import BudgetExceeded, RunResult, Violation, metered, rng_for, set_stream_align
from hvsim.engines import disk
from hvsim.model import describe, first_mismatch
from hvsim.simfs import monitored
from hvsim.world import World

STEP_LIMIT = 600_000
FORMATS = ["qcow2", "vmdk", "vhdx", "vhd", "vdi", "hds"]
K_REQ, K_META, C_REQ = 4, 4, 256 * 1024
K_OPEN, C_OPEN = 4, 1 << 20
K_DATA, C_DATA = 2, 8192


def table_size(fmt, cfg):
    """Units per second-level mapping table (None: one flat table for the whole disk)."""
    if fmt == "qcow2":
        return (1 << cfg["cluster_bits"]) // (16 if cfg["extl2"] else 8)
    if fmt == "vmdk" and cfg["kind"] != "flat":
        return cfg["gtes"]
    return None


def gen_case(seed: int, prop: str, tier: str) -> dict:
    rng = rng_for(seed, "lazy")
    fmt = rng.choice(FORMATS)
    F = disk.fmt_module(fmt)
    cfg = F.gen_cfg(rng, tier, True)
    cfg["alloc"] = "seq"  # main units keep their host slots when extras are appended
    if fmt == "vmdk" and cfg["kind"] == "flat":
        cfg = F.gen_cfg(rng, tier, True)
        cfg["alloc"] = "seq"
    if fmt == "qcow2":
        cfg["backing"] = None
    align = rng.choice([8192, 8192, 4096, 65536])
    sector = F.sector_size(cfg)
    if align % sector:
        align = 8192
    nsectors = cfg["nsectors"]
    unit = F.unit_sectors(cfg)
    nunits = (nsectors + unit - 1) // unit
    caps = dict(F.caps(cfg))
    caps["dealloc"] = False
    ts = table_size(fmt, cfg)
    # main ops: a few writes at the extremes
    spots = sorted({0, nunits - 1, nunits // 2, min(nunits - 1, (1 << 32) // unit), min(nunits - 1, (1 << 33) // unit + 1),
                    rng.randrange(nunits), rng.randrange(nunits)})
    spots = rng.sample(spots, min(len(spots), rng.choice([2, 3, 4])))
    ops = []
    wid = 1
    gran = sector // 512
    for u in spots:
        lba = u * unit + rng.choice([0, 0, rng.randrange(unit)])
        lba -= lba % gran
        ln = max(gran, min(rng.choice([1, 8, 16, 64, unit, unit + 8]) // gran * gran or gran, nsectors - lba, 4096))
        if lba < nsectors:
            ops.append(["w", lba, ln, wid])
            wid += 1
    if caps.get("compress") and ops and rng.random() < 0.5:
        ops.append(["c", ops[0][1] // unit])
    # requests near the main ops and at extremes
    marks = {0, nsectors * 512}
    for op in ops:
        if op[0] == "w":
            marks.update((op[1] * 512, (op[1] + op[2]) * 512))
    reqs = []
    for _ in range(rng.choice([3, 5, 8])):
        base = rng.choice(sorted(marks))
        off = max(0, min(nsectors * 512, base + rng.choice([0, 0, -512, 512, -align, -4096, -rng.randrange(1 << 16), rng.randrange(1 << 16)])))
        ln = rng.choice([1, 512, 4096, 8192, 65536, 8193, 100000, 1 << 20])
        reqs.append(["r", off, ln])
    if rng.random() < 0.3:
        # many small reads all over the disk: whatever is fetched per distinct region of the mapping must add up to no more than
        # the mapping itself
        for _ in range(rng.choice([12, 20, 28])):
            off = rng.randrange(nsectors * 512)
            reqs.append(["r", off - off % 512, rng.choice([512, 4096])])
    # units (and tables) the requests and main ops touch: extras must stay away from them
    touched_units = set()
    for _, off, ln in reqs:
        end = min(off + ln + 2 * align, nsectors * 512)
        a0 = max(0, off - align)
        touched_units.update(range(a0 // (unit * 512), max(a0 // (unit * 512) + 1, (end + unit * 512 - 1) // (unit * 512))))
    for op in ops:
        if op[0] == "w":
            touched_units.update(range(op[1] // unit, (op[1] + op[2] - 1) // unit + 1))
        elif op[0] == "c":
            touched_units.add(op[1])
    if ts:
        touched_tables = {u // ts for u in touched_units}
    extras = []
    tries = 0
    want_units = rng.choice([200, 1000, 3000])
    got = 0
    while got < want_units and tries < 40:
        tries += 1
        span = rng.choice([50, 200, 800])
        u0 = rng.randrange(max(1, nunits - span))
        u1 = min(nunits, u0 + span)
        if ts:
            if any((u // ts) in touched_tables for u in (u0, u1 - 1)) or any(t in touched_tables for t in range(u0 // ts, (u1 - 1) // ts + 1)):
                continue
        elif any(u in touched_units for u in range(u0, u1)):
            continue
        s, e = u0 * unit, min(u1 * unit, nsectors)
        if e > s:
            extras.append(["w", s, e - s, 50000 + tries])
            got += u1 - u0
    case = {"engine": "lazy", "prop": prop, "seed": seed, "fmt": fmt, "cfg": cfg, "align": align, "ops": ops, "extras": extras,
            "cops": reqs, "open": rng.choice(F.open_modes(cfg))}
    if rng.random() < 0.08:
        case["tail_damage"] = True
        case["extras"] = []
    return case


def _run_variant(case, ops, tag):
    """Returns (violation tuple | None, ledger trace [(calls, ret) per step], info)."""
    F = disk.fmt_module(case["fmt"])
    world = World("z" + tag)
    dcase = {"fmt": case["fmt"], "cfg": case["cfg"], "ops": ops, "prop": case["prop"]}
    trace = []
    with world.fs, monitored():
        F_, layers, view, img, main = disk.build(dcase, world)
        size = view.n * 512
        if case.get("tail_damage"):
            # fault: the last KiB of the image file is zeroed (a lost trailing footer / end marker / last table sector). Such an
            # image may be refused or served - but cheaply: an attempt to recover by searching the file is a scan.
            mf = world.fs.files[main]
            mf.write(max(0, mf.length - 1024), bytes(min(1024, mf.length)))
            world.faults_fired["tail_zeroed"] += 1
        led0 = world.total_ledger()
        try:
            with metered(STEP_LIMIT, "loop", world.step_allowance(STEP_LIMIT, 2.0, img.meta_bytes)):
                stream = F.open(world, main, img, case["open"])
        except BudgetExceeded:
            return ("budget", "open did not finish within the step budget"), trace, world, None
        except Exception as e:
            if case.get("tail_damage"):
                led = world.total_ledger()
                if led["ret"] - led0["ret"] > K_OPEN * img.meta_bytes + C_OPEN:
                    return ("io-open", f"refusing the damaged image cost {led['ret'] - led0['ret']} bytes of I/O (metadata is {img.meta_bytes} bytes)"), trace, world, None
                return None, trace, world, None
            return ("raised:" + type(e).__name__, f"open raised {type(e).__name__}: {e}"[:300]), trace, world, None
        if case.get("tail_damage"):
            led = world.total_ledger()
            if led["ret"] - led0["ret"] > K_OPEN * img.meta_bytes + C_OPEN:
                return ("io-open", f"opening the damaged image cost {led['ret'] - led0['ret']} bytes of I/O (metadata is {img.meta_bytes} bytes)"), trace, world, None
            return None, trace, world, None
        led = world.total_ledger()
        opened = led["ret"] - led0["ret"]
        trace.append(("open", led["calls"] - led0["calls"], opened))
        world.log.add("acquirer", "open", tag, opened)
        allowed = K_OPEN * img.meta_bytes + C_OPEN
        if opened > allowed:
            return ("io-open", f"open read {opened} bytes from storage; metadata is {img.meta_bytes} bytes (allowed {allowed})"), trace, world, img
        if stream.size != size:
            return ("size", f"size {stream.size} != {size}"), trace, world, img
        span, tbytes, top = F.meta_model(case["cfg"])
        tables_seen = set()
        cum_cost = 0
        cum_req = 0
        cum_extra = 0
        cum_raw = 0
        nreq = 0
        for op in case["cops"]:
            off, ln = op[1], op[2]
            before = world.total_ledger()
            try:
                with metered(STEP_LIMIT, "loop", world.step_allowance(STEP_LIMIT, 2.0, img.meta_bytes + ln)):
                    stream.seek(off)
                    got = stream.read(ln)
            except BudgetExceeded:
                return ("budget", f"{op} did not finish within the step budget"), trace, world, img
            except Exception as e:
                tb = traceback.extract_tb(e.__traceback__)[-1]
                return ("raised:" + type(e).__name__, f"{op} raised {type(e).__name__}: {e} at {tb.filename.rsplit('/', 1)[-1]}:{tb.lineno}"[:300]), trace, world, img
            after = world.total_ledger()
            cost = after["ret"] - before["ret"]
            trace.append((tuple(op), after["calls"] - before["calls"], cost))
            world.log.add("client", "r", [tag, off, ln], got)
            want = view.expected(off, ln)
            if got != want:
                if len(got) != len(want):
                    return ("short" if len(got) < len(want) else "long", f"{op}: got {len(got)} bytes, want {len(want)}"), trace, world, img
                i = first_mismatch(got, want)
                s0 = i - ((off + i) % 16)
                s0 = s0 + 16 if s0 < 0 else s0
                return ("mismatch", f"{op} [{tag}]: first wrong byte at +{i} (disk offset {off + i}): got {describe(got, s0)}, want {describe(want, s0)}"), trace, world, img
            eff = min(ln, max(0, size - off))
            allowed = K_REQ * (eff + 2 * case["align"]) + K_META * F.req_meta_bytes(case["cfg"], img, off, eff + 2 * case["align"]) + C_REQ
            # guest data proper (bytes of allocation units' payload, as told apart by the storage fake): what a request may pull
            # from the data area is the request itself, widened to the stream buffer's alignment on both sides
            dcost = after["data"] - before["data"]
            dallowed = K_DATA * (eff + 2 * case["align"]) + C_DATA
            if dcost > dallowed:
                return ("io-data", f"{op} [{tag}] read {dcost} bytes of guest data from storage for a {eff}-byte request with {case['align']}-byte "
                                   f"stream buffers (allowed {dallowed})"), trace, world, img
            if cost > allowed:
                return ("io-request", f"{op} [{tag}] read {cost} bytes from storage for a {eff}-byte request (allowed {allowed})"), trace, world, img
            # cumulative budget: a mapping table is paid for once per run, however many requests it serves
            a0 = max(0, off - case["align"])
            a1 = min(size, off + eff + case["align"])
            tables_seen.update(range(a0 // span, max(a0 // span + 1, (a1 + span - 1) // span)))
            cum_cost += cost
            cum_raw += after["raw"] - before["raw"]
            cum_req += eff + 2 * case["align"]
            nreq += 1
            rm = F.req_meta_bytes(case["cfg"], img, off, eff + 2 * case["align"])
            if tbytes >= 4096:
                cum_extra += max(0, rm - 2 * tbytes - top)  # what is not a mapping table: compressed units, bitmaps
            elif tbytes == 0:
                cum_extra += max(0, rm - top)  # one flat table for the whole disk: paid once, through `top`
            else:
                cum_extra += rm
            # small tables keep the generous factor (readers fetch them in sector- or buffer-sized pieces); a large table read
            # in full more than twice per run is a table that is not being kept
            k_tab = K_META if tbytes < 65536 else 2
            k_top = K_META if top < 65536 else 2
            cum_allowed = K_REQ * cum_req + k_tab * len(tables_seen) * tbytes + k_top * top + K_META * cum_extra + C_REQ
            if cum_cost > cum_allowed:
                return ("io-cumulative", f"after {op} [{tag}] the run has read {cum_cost} bytes from storage for {cum_req} request bytes touching "
                                         f"{len(tables_seen)} mapping table(s) of {tbytes} bytes (allowed {cum_allowed}): tables are re-read per request"), trace, world, img
            # the same for literal bytes only (headers, tables, bitmaps, compressed blobs - the storage fake tells them apart from
            # guest payload and holes): mapping metadata is paid for once per table, however many requests it serves
            meta_cost = cum_raw
            meta_allowed = k_tab * len(tables_seen) * tbytes + k_top * top + K_META * cum_extra + C_REQ + 8192 * nreq
            if meta_cost > meta_allowed:
                return ("io-metadata", f"after {op} [{tag}] the run has read {meta_cost} bytes of metadata in {nreq} request(s) touching "
                                       f"{len(tables_seen)} second-level table(s) of {tbytes} bytes, top-level table {top} bytes (allowed {meta_allowed})"), trace, world, img
    return None, trace, world, img


def run_case(case: dict) -> RunResult:
    set_stream_align(case["align"])
    prop = case["prop"]
    F = disk.fmt_module(case["fmt"])
    sig = {"fmt": case["fmt"], "features": F.features(case["cfg"])}
    va, ta, wa, imga = _run_variant(case, case["ops"], "A")
    log = wa.log
    viol = None
    if va:
        viol = Violation(prop, va[0], log.seq, va[1], dict(sig, klass=va[0]))
    vb = tb_ = None
    if viol is None and case["extras"]:
        vb, tb_, wb, imgb = _run_variant(case, case["ops"] + case["extras"], "B")
        for ev in wb.log.events:
            log.add(*ev[1:])
        if vb:
            viol = Violation(prop, vb[0], log.seq, vb[1] + " [dense variant]", dict(sig, klass=vb[0]))
        elif ta != tb_:
            diffs = [(a, b) for a, b in zip(ta, tb_) if a != b][:2]
            viol = Violation(prop, "io-grows-with-allocation", log.seq,
                             f"storage ledger differs between the sparse and the dense variant of the same image: {diffs}",
                             dict(sig, klass="io-grows-with-allocation"))
    res = RunResult(log, viol)
    cfg = case["cfg"]
    size = cfg["nsectors"] * 512
    geom = ("<1TiB" if size < (1 << 40) else "<16TiB" if size < (1 << 44) else ">=16TiB")
    for op in case["cops"]:
        key = (case["fmt"], F.features(cfg), geom, "far" if op[1] >= (1 << 32) else "near", "far-sector" if op[1] >= (1 << 41) else "", min(op[2], 1 << 20) >= 65536)
        res.keys.add(key)
        if op[1] >= (1 << 32):
            res.nontrivial_keys.add(key)
    res.probes["lazy.fmt_" + case["fmt"]] = 1
    res.faults.update(wa.faults_fired)
    if case.get("tail_damage"):
        res.probes["lazy.fault_tail_zeroed"] = 1
    if size >= (1 << 40):
        res.probes["lazy.virtual_size_ge_1TiB"] = 1
    if size >= (1 << 44):
        res.probes["lazy.virtual_size_ge_16TiB"] = 1
    if cfg["nsectors"] > (1 << 32):
        res.probes["lazy.more_than_2^32_sectors"] = 1
    if case["extras"]:
        res.probes["lazy.metamorphic_pair"] = 1
    if imga is not None:
        for f in imga.files.values():
            if f.length >= (1 << 32):
                res.probes["lazy.host_file_ge_4GiB"] = 1
            if f.length >= (1 << 41):
                res.probes["lazy.host_file_ge_2^32_sectors"] = 1
    res.extra["storage_bytes_read"] = wa.total_ledger()["ret"]
    return res


SHRINK_LISTS = ["cops", "extras", "ops"]
