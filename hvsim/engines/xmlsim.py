"""C19 - XML descriptors are parsed without entity expansion or external fetches.

Every XML-consuming entry point (OVF, VBox, PVS, Parallels DiskDescriptor through HDD(path) on the simulated
namespace) is fed otherwise valid documents into which hostile constructs are spliced: internal entities nested
1..12 deep (billion-laughs shape), quadratic blow-up, external general entities (file: on the simulated namespace,
file: on the real filesystem, http:), external parameter entities, external DTD subsets carrying entities, declared
but unused entities; in element and attribute position.  Oracle: every document that declares an entity is
refused; in all families no OS-level open of any path, no read of the honeypot file, no network event, and the C11
step / allocation budgets hold.  Control documents (no declaration, DOCTYPE without entities, character
references) parse and yield the same disk list as the clean document."""
from __future__ import annotations

import io
import tracemalloc

from hvsim.core import BudgetExceeded, RunResult, Violation, metered, rng_for, set_stream_align
from hvsim.simfs import MONITOR, SimFile, monitored
from hvsim.world import World

INDEXED = True
A_STEPS = 1_000_000
C_ALLOC = 64 << 20
ENTRY = ["ovf", "vbox", "pvs", "hdd"]
URLS = ["file://{root}/secret.txt", "file:///etc/passwd", "http://127.0.0.1:9/x.dtd"]

DOCS = {
    "ovf": ('<Envelope xmlns="http://schemas.dmtf.org/ovf/envelope/1" xmlns:ovf="http://schemas.dmtf.org/ovf/envelope/1" '
            'xmlns:rasd="http://schemas.dmtf.org/wbem/wscim/1/cim-schema/2/CIM_ResourceAllocationSettingData"><References>'
            '<File ovf:href="disk1.vmdk" ovf:id="file1" ATTR/></References><DiskSection><Info>TEXT</Info><Disk ovf:diskId="vmdisk1" ovf:fileRef="file1"/></DiskSection>'
            '<VirtualSystem ovf:id="vm"><VirtualHardwareSection><Item><rasd:ResourceType>17</rasd:ResourceType>'
            '<rasd:HostResource>ovf:/disk/vmdisk1</rasd:HostResource></Item></VirtualHardwareSection></VirtualSystem></Envelope>', "Envelope"),
    "vbox": ('<VirtualBox xmlns="http://www.virtualbox.org/" version="1.16"><Machine><Description>TEXT</Description><MediaRegistry><HardDisks>'
             '<HardDisk uuid="{1}" location="disk.vdi" format="VDI" type="Normal" ATTR/></HardDisks></MediaRegistry></Machine></VirtualBox>', "VirtualBox"),
    "pvs": ('<ParallelsVirtualMachine><Identification><VmName ATTR>TEXT</VmName></Identification><Hardware><Hdd><SystemName>disk.hdd</SystemName></Hdd>'
            '</Hardware></ParallelsVirtualMachine>', "ParallelsVirtualMachine"),
    "hdd": ('<Parallels_disk_image Version="1.0"><Disk_Parameters><Name ATTR>TEXT</Name></Disk_Parameters><StorageData><Storage><Start>0</Start><End>8</End>'
            '<Blocksize>8</Blocksize><Image><GUID>{5fbaabe3-6958-40ff-92a7-860e329aab41}</GUID><Type>Compressed</Type><File>x.hds</File></Image>'
            '</Storage></StorageData><Snapshots><Shot><GUID>{5fbaabe3-6958-40ff-92a7-860e329aab41}</GUID>'
            '<ParentGUID>{00000000-0000-0000-0000-000000000000}</ParentGUID></Shot></Snapshots></Parallels_disk_image>', "Parallels_disk_image"),
}


# document flavours per entry point: other schema versions / namespaces / root attributes a real file may carry
FLAVOURS = {
    "ovf": [lambda d: d,
            lambda d: d.replace("http://schemas.dmtf.org/ovf/envelope/1", "http://schemas.dmtf.org/ovf/envelope/2"),
            lambda d: d.replace('<Envelope ', '<Envelope ovf:version="1.0" xml:lang="en-US" ')],
    "vbox": [lambda d: d, lambda d: d.replace('version="1.16"', 'version="1.19-linux"'), lambda d: d.replace('version="1.16"', 'version="1.12-windows"')],
    "pvs": [lambda d: d, lambda d: d.replace("<ParallelsVirtualMachine>", '<ParallelsVirtualMachine dyn_lists="VirtualAppliance 0" schemaVersion="1.0">')],
    "hdd": [lambda d: d, lambda d: d.replace('Version="1.0"', 'Version="2.0"')],
}


def families():
    fam = []
    for depth in range(1, 13):
        for pos in ("elem", "attr"):
            fam.append(("internal_nested", depth, pos))
    fam += [("quadratic", 2000, "elem"), ("quadratic", 2000, "attr")]
    for u in range(len(URLS)):
        for pos in ("elem", "attr"):
            fam.append(("external_general", u, pos))
        fam.append(("external_parameter", u, "dtd"))
        fam.append(("external_subset_with_entity", u, "elem"))
        fam.append(("external_subset_only", u, "none"))  # control: no entity declared
    fam += [("declared_unused", 1, "none"), ("declared_unused_parameter", 1, "none")]
    fam += [("control_plain", 0, "none"), ("control_doctype_empty", 0, "none"), ("control_charrefs", 0, "elem"), ("control_predefined", 0, "attr")]
    return fam


ENCODINGS = {"utf-8": ("utf-8", None), "utf-8-sig": ("utf-8-sig", None), "utf-16": ("utf-16", "UTF-16"), "utf-16-be": ("utf-16-be", "UTF-16"),
             "latin-1": ("latin-1", "ISO-8859-1")}


def encode_doc(text: str, enc: str) -> bytes:
    """The document as stored bytes in another encoding a real file may use (declaration adjusted, BOM where the encoding has one)."""
    codec, declared = ENCODINGS[enc]
    if declared:
        import re

        if text.lstrip("\ufeff \r\n\t").startswith("<?xml"):
            # (a declaration must be the very first thing in the file: white space the UTF-8 variant carried in front is dropped)
            text = re.sub(r"<\?xml[^?]*\?>", f'<?xml version="1.0" encoding="{declared}"?>', text.lstrip("\ufeff \r\n\t"), count=1)
        else:
            text = f'<?xml version="1.0" encoding="{declared}"?>' + text.lstrip("\ufeff \r\n\t")
    if enc == "latin-1":
        text = text.replace("\ufeff", "").replace("é", "\xe9")
        return text.encode("latin-1", "replace")
    if enc == "utf-16-be":
        return b"\xfe\xff" + text.replace("\ufeff", "").encode("utf-16-be")
    return text.encode(codec)


def make_doc(entry: str, fam, root: str, variant: int, flavour: int = 0) -> tuple[str, bool]:
    """Returns (document text, declares_entity)."""
    body, rootname = DOCS[entry]
    kind, arg, pos = fam
    rng = rng_for("xml", entry, kind, arg, pos, variant)
    ename = rng.choice(["a", "lol", "x1", "ent_%d" % variant, "é"]) if variant else "a"
    decl = ""
    ref = ""
    declares = True
    if kind == "internal_nested":
        names = [f"{ename}{i}" for i in range(arg)]
        parts = [f'<!ENTITY {names[0]} "{"lol" * 10}">']
        for i in range(1, arg):
            parts.append(f'<!ENTITY {names[i]} "{("&" + names[i - 1] + ";") * 10}">')
        decl = f"<!DOCTYPE {rootname} [{''.join(parts)}]>"
        ref = f"&{names[-1]};"
    elif kind == "quadratic":
        decl = f'<!DOCTYPE {rootname} [<!ENTITY {ename} "{"A" * 50000}">]>'
        ref = f"&{ename};" * arg
    elif kind == "external_general":
        decl = f'<!DOCTYPE {rootname} [<!ENTITY {ename} SYSTEM "{URLS[arg].format(root=root)}">]>'
        ref = f"&{ename};"
    elif kind == "external_parameter":
        decl = f'<!DOCTYPE {rootname} [<!ENTITY % {ename} SYSTEM "{URLS[arg].format(root=root)}"> %{ename};]>'
    elif kind == "external_subset_with_entity":
        decl = f'<!DOCTYPE {rootname} SYSTEM "{URLS[arg].format(root=root)}" [<!ENTITY {ename} "v">]>'
        ref = f"&{ename};"
    elif kind == "external_subset_only":
        decl = f'<!DOCTYPE {rootname} SYSTEM "{URLS[arg].format(root=root)}">'
        declares = False
    elif kind == "declared_unused":
        decl = f'<!DOCTYPE {rootname} [<!ENTITY {ename} "unused">]>'
    elif kind == "declared_unused_parameter":
        decl = f'<!DOCTYPE {rootname} [<!ENTITY % {ename} "unused">]>'
    elif kind == "control_plain":
        declares = False
    elif kind == "control_doctype_empty":
        decl = f"<!DOCTYPE {rootname}>" if variant % 2 == 0 else f"<!DOCTYPE {rootname} []>"
        declares = False
    elif kind == "control_charrefs":
        ref = "&#65;&#x42;&amp;&lt;"
        declares = False
    elif kind == "control_predefined":
        ref = "&quot;&apos;&gt;"
        declares = False
    text = "TEXT" if pos != "elem" else ref
    attr = "" if pos != "attr" else f'note="{ref}"'
    if kind == "external_general" and pos == "attr":
        pass  # external entities are not allowed in attribute values by XML itself; still a declaration -> refused
    doc = body.replace("TEXT", text if pos == "elem" else "t").replace("ATTR", attr)
    doc = FLAVOURS[entry][flavour % len(FLAVOURS[entry])](doc)
    pro = rng.choice(['<?xml version="1.0" encoding="UTF-8"?>', "<?xml version='1.0'?>", ""]) if variant else '<?xml version="1.0"?>'
    ws = rng.choice(["", "\n", "\n  "]) if variant else ""
    # legal prolog content between the XML declaration and the DOCTYPE: comments and processing instructions, some of them
    # containing tag-like text (a parser-choosing pre-scan must not be fooled by it)
    prolog = ["", "", "<!-- exported by hvsim -->", f"<!-- <{rootname}> -->", "<!--<Backup/>-->", f'<?editor "<{rootname}>"?>',
              "<?xml-stylesheet href='a.xsl'?>",
              # a prolog may be arbitrarily long: a banner comment / padding that pushes the DOCTYPE beyond any fixed-size look-ahead
              "<!-- " + "generated file - do not edit by hand. " * 60 + "-->", " " * 70000 + "<?pad x?>" + "\n" * 3000,
              ][(variant + flavour * 3 + len(kind)) % 9] if (variant or flavour) else ""
    text_out = pro + ws + prolog + ws + decl + ws + doc
    if declares and (variant + flavour) % 4 == 3:
        # not well-formed (content before the XML declaration): a first parser must refuse it; a lenient second attempt that
        # strips the junk must not be a less careful parser
        text_out = ["\n", " ", "\ufeff", "\r\n\t"][(variant // 4 + flavour) % 4] + text_out
    return text_out, declares


def _plan(tier, verif_seed):
    variants = 4 if tier == "quick" else 16
    plan = []
    for e in ENTRY:
        for fl in range(len(FLAVOURS[e])):
            for fam in families():
                for v in range(variants):
                    plan.append((e, fam, v + (verif_seed - 1) * 100 if v else 0, fl, "utf-8", "r"))
        # stored encodings other than UTF-8 and binary handles (the constructors take what fh.read() returns, str or bytes)
        for fam in families():
            for enc in ENCODINGS:
                for hmode in ("r", "rb"):
                    if (enc, hmode) != ("utf-8", "r"):
                        plan.append((e, fam, 1 + (verif_seed - 1) * 100, 0, enc, hmode))
        # an environment fault: the hardened parser package cannot be imported (a broken or partial installation). Whatever the
        # library then does, it must not parse entity-declaring documents with something else
        for fam in (("internal_nested", 3, "elem"), ("internal_nested", 9, "attr"), ("external_general", 0, "elem"), ("declared_unused", 1, "none")):
            plan.append((e, fam, 0, 0, "utf-8", "r:no_defusedxml"))
    return plan


def plan_size(prop, tier, verif_seed):
    return len(_plan(tier, verif_seed))


def gen_case(seed, prop, tier, index=0, verif_seed=1):
    plan = _plan(tier, verif_seed)
    e, fam, v, fl, enc, hmode = plan[index % len(plan)]
    return {"engine": "xmlsim", "prop": prop, "seed": seed, "entry": e, "family": list(fam), "variant": v, "flavour": fl, "enc": enc, "hmode": hmode}


def _parse(entry, world, path, hmode="r"):
    from pathlib import Path

    if entry == "ovf":
        from dissect.hypervisor.descriptor.ovf import OVF

        with Path(path).open(hmode) as fh:
            return sorted(OVF(fh).disks())
    if entry == "vbox":
        from dissect.hypervisor.descriptor.vbox import VBox

        with Path(path).open(hmode) as fh:
            return sorted(VBox(fh).disks())
    if entry == "pvs":
        from dissect.hypervisor.descriptor.pvs import PVS

        with Path(path).open(hmode) as fh:
            return sorted(PVS(fh).disks())
    from dissect.hypervisor.disk.hdd import HDD

    h = HDD(Path(path).parent)
    return [(s.start, s.end, [(str(i.guid), i.type, i.file) for i in s.images]) for s in h.descriptor.storage_data.storages]


_clean = {}


def _without_defusedxml(case: dict) -> RunResult:
    """Runs in a forked child: the library and the hardened parser are unloaded and the parser's package made unimportable."""
    import sys

    for m in list(sys.modules):
        if m == "defusedxml" or m.startswith(("defusedxml.", "dissect.hypervisor")):
            del sys.modules[m]
    sys.modules["defusedxml"] = None  # `import defusedxml` now raises ImportError
    return run_case(dict(case, hmode="r", _env_applied=True))


def run_case(case: dict) -> RunResult:
    from hvsim.engines import monitor

    monitor.warm()
    if case.get("hmode", "r").endswith(":no_defusedxml") and not case.get("_env_applied"):
        from hvsim.orchestrator import forked

        res = forked(_without_defusedxml, case, timeout=120.0)
        res.probes["xml.env_defusedxml_not_importable"] = 1
        res.faults["env_missing_dependency"] += 1
        return res
    world = World("x")
    log = world.log
    prop = case["prop"]
    entry = case["entry"]
    fam = tuple(case["family"])
    sig = {"entry": entry, "family": fam[0]}
    d = world.root + "/vm/x.hdd" if entry == "hdd" else world.root + "/vm"
    fname = {"ovf": "a.ovf", "vbox": "a.vbox", "pvs": "config.pvs", "hdd": "DiskDescriptor.xml"}[entry]
    flavour = case.get("flavour", 0)
    doc, declares = make_doc(entry, fam, world.root, case["variant"], flavour)
    viol = None

    def v(klass, detail):
        return Violation(prop, klass, log.seq, detail, dict(sig, klass=klass))

    with world.fs:
        f = SimFile()
        enc, hmode = case.get("enc", "utf-8"), case.get("hmode", "r")
        f.write(0, encode_doc(doc, enc) if enc != "utf-8" else doc.encode("utf-8"))
        world.fs.add(d + "/" + fname, f)
        # a control document stored in another encoding is only expected to parse where the bytes reach the XML parser undecoded
        # (binary handle); through a text-mode handle or read_text() the UTF-8 decode in front of the parser may refuse it
        control_must_parse = enc == "utf-8" or (hmode == "rb" and entry != "hdd")
        if entry == "hdd" and (case["variant"] + flavour) % 2 == 1:
            # Parallels keeps a previous copy next to the descriptor; a clean one is there for any fallback to find
            bf = SimFile()
            bf.write(0, make_doc(entry, ("control_plain", 0, "none"), world.root, 0, flavour)[0].encode())
            world.fs.add(d + "/" + fname + ".Backup", bf)
        honey = SimFile()
        honey.write(0, b"TOP-SECRET-HONEYPOT\n")
        world.fs.add(world.root + "/secret.txt", honey)
        ck = (entry, flavour)
        if ck not in _clean and not declares:
            cw = World("clean")
            with cw.fs:
                cd = cw.root + ("/vm/x.hdd" if entry == "hdd" else "/vm")
                cf = SimFile()
                cf.write(0, make_doc(entry, ("control_plain", 0, "none"), cw.root, 0, flavour)[0].encode())
                cw.fs.add(cd + "/" + fname, cf)
                _clean[ck] = _parse(entry, cw, cd + "/" + fname)
        MONITOR.reset()
        outcome = None
        result = None
        tracemalloc.start()
        try:
            with monitored():
                try:
                    with metered(A_STEPS, "line") as m:
                        try:
                            result = _parse(entry, world, d + "/" + fname, hmode)
                            outcome = "parsed"
                        except BudgetExceeded:
                            raise
                        except Exception as e:
                            outcome = "refused:" + type(e).__name__
                except BudgetExceeded:
                    outcome = "budget"
        finally:
            peak = tracemalloc.get_traced_memory()[1]
            tracemalloc.stop()
        log.add("reader", "parse", [entry, list(fam)], outcome)
        opens = [o for o in MONITOR.opens]
        if case.get("_env_applied"):
            # the library is imported afresh inside the measured window: the interpreter reading source and byte-code files is
            # not the parser's doing
            opens = [o for o in opens if not str(o[0]).endswith((".py", ".pyc", ".so", "__pycache__"))]
        net = list(MONITOR.net)
        honey_reads = [p for p, mode in world.fs.open_log if p.endswith("/secret.txt")]
        if outcome == "budget":
            viol = v("steps", f"parse did not finish within {A_STEPS} line events ({fam})")
        elif peak > C_ALLOC:
            viol = v("alloc", f"peak traced allocation {peak} bytes while parsing ({fam})")
        elif opens:
            viol = v("os-open", f"OS-level open events while parsing: {opens[:3]}")
        elif honey_reads or honey.ledger["calls"]:
            viol = v("honeypot-read", "the parser read the file an external entity pointed at")
        elif net:
            viol = v("network", f"network events while parsing: {net[:3]}")
        elif declares and outcome == "parsed":
            viol = v("entity-accepted", f"a document declaring an entity was parsed ({fam})")
        elif not declares and outcome != "parsed" and not control_must_parse:
            pass
        elif not declares and outcome != "parsed":
            viol = v("control-refused", f"a document without entity declarations was refused: {outcome} ({fam})")
        elif not declares and result != _clean[ck]:
            viol = v("control-differs", f"control document parsed to {result!r:.150}, clean document to {_clean[ck]!r:.150}")
    res = RunResult(log, viol)
    key = (entry, flavour, fam[0], fam[1] if fam[0] in ("internal_nested", "external_general", "external_parameter") else 0, fam[2], (outcome or "").split(":")[0])
    res.keys.add(key)
    if declares:
        res.nontrivial_keys.add(key)
    res.probes["xml.entry_" + entry] = 1
    res.probes["xml.flavour_%s_%d" % (entry, flavour)] = 1
    res.probes["xml.family_" + fam[0]] = 1
    res.probes["xml.stored_as_%s_handle_%s" % (enc, hmode)] = 1
    res.probes["xml.outcome_" + (outcome or "?").split(":")[0]] = 1
    res.faults["hostile_xml:" + fam[0]] += 1 if declares or fam[0] == "external_subset_only" else 0
    res.extra["peak_alloc"] = peak
    return res


SHRINK_LISTS = []


def warm_process():
    from hvsim.engines import monitor as _m

    _m.warm()
