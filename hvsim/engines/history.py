"""C08 - a disk stream behaves as an immutable byte array under any access history.

World: stub images of every format (incl. cache-overflow geometries) and the repo's real samples.
History: seek/read/readinto/peek/readoffset/readall/tell/read_sectors over 1-2 stream objects, replayed under
two stream buffer sizes.  Oracle: (a) length/position contract, (b) single-array consistency - every byte ever
returned for an offset must be the same byte, whatever length, alignment, client, cache state, buffer size or
interface produced it.  The guest model is deliberately not the oracle here."""
from __future__ import annotations

import traceback
from functools import lru_cache

from hvsim import fixtures
from hvsim.model import first_mismatch
from hvsim.core import BudgetExceeded, RunResult, Violation, metered, rng_for, set_stream_align
from hvsim.engines import chains, disk
from hvsim.simfs import monitored
from hvsim.world import World

STEP_LIMIT = 400_000
FORMATS = ["qcow2", "vmdk", "vhdx", "vhd", "vdi", "hds"]
ALIGNS = [512, 1536, 4096, 8192, 8192, 8192, 65536, 1 << 20, 4 << 20]
PAGE = 4096


class Known:
    """Bytes learned so far, per offset."""

    def __init__(self):
        self.pages = {}

    def check_learn(self, off: int, buf: bytes):
        """Returns the first disagreeing absolute offset, or -1. Learns the buffer."""
        pos = 0
        n = len(buf)
        bad = -1
        while pos < n:
            p, o = divmod(off + pos, PAGE)
            take = min(PAGE - o, n - pos)
            seg = buf[pos : pos + take]
            pg = self.pages.get(p)
            if pg is None:
                data = bytearray(PAGE)
                mask = bytearray(PAGE)
                self.pages[p] = (data, mask)
            else:
                data, mask = pg
            m = mask[o : o + take]
            if m.count(1) == take:
                if data[o : o + take] != seg and bad < 0:
                    d = data[o : o + take]
                    for i in range(take):
                        if d[i] != seg[i]:
                            bad = off + pos + i
                            break
            elif m.count(1) == 0:
                data[o : o + take] = seg
                mask[o : o + take] = b"\x01" * take
            else:
                for i in range(take):
                    if mask[o + i]:
                        if data[o + i] != seg[i] and bad < 0:
                            bad = off + pos + i
                    else:
                        data[o + i] = seg[i]
                        mask[o + i] = 1
            pos += take
        return bad


def gen_case(seed: int, prop: str, tier: str) -> dict:
    rng = rng_for(seed, "history")
    r = rng.random()
    if 0.12 <= r < 0.27:
        # layered world: the clients are views that share library-internal state (QCOW2 snapshot views share the file
        # handle and the L2 cache; every chain shares its parents' stream objects across requests)
        while True:
            cc = chains.gen_case(rng.getrandbits(50), "C08", tier, kind=rng.choice(["qcow2snap", "qcow2snap", "qcow2", "vhdx", "vmdk", "hdd", "vdi"]))
            if not cc.get("fault"):
                break
        if cc["kind"] == "qcow2snap" and cc["layers"][0]["cfg"].get("compress") and rng.random() < 0.6:
            # the same guest clusters compressed in every view, with different content each: anything a view remembers about a
            # cluster it inflated is wrong for the next view
            unit = cc["layers"][0]["unit"]
            nunits = (cc["layers"][0]["cfg"]["nsectors"] + unit - 1) // unit
            hot = sorted({0, nunits - 1, rng.randrange(nunits)})
            for li, L in enumerate(cc["layers"]):
                for hj, u in enumerate(hot):
                    ln = min(unit, cc["layers"][0]["cfg"]["nsectors"] - u * unit)
                    L["ops"] = L["ops"] + [["w", u * unit, ln, 5000 + 10 * li + hj], ["c", u]]
        nviews = len(cc["layers"])
        multi = cc["kind"] in ("qcow2snap", "hdd")
        nclients = rng.choice([1, 2, 3]) if multi else 1
        nclients = min(nclients, nviews)
        # distinct views: the same view handed out twice is the same stream object (one cursor), not two clients
        views = rng.sample(range(nviews), nclients) if multi else [nviews - 1]
        src = {"kind": "chain", "ccase": dict(cc, cops=[]), "views": views}
        size = chains._nsectors(cc, cc["layers"][0 if cc["kind"] == "qcow2snap" else -1]) * 512
        sector = cc["sector"]
        unit_bytes = cc["layers"][-1]["unit"] * 512
        has_rs = cc["kind"] in ("vhdx", "vmdk")
        marks = {0, size}
        for L in cc["layers"]:
            for op in L["ops"]:
                if op[0] in ("w", "z"):
                    marks.update((op[1] * 512, (op[1] + op[2]) * 512))
        marks = sorted(m for m in marks if m <= size)
    elif r < 0.12:
        src = {"kind": "fixture", "name": rng.choice(sorted(fixtures.DISK_FIXTURES))}
        size, sector, unit_bytes, has_rs = _fixture_geom(src["name"])
        marks = [0, size, unit_bytes, 2 * unit_bytes, size - unit_bytes]
    else:
        fmt = rng.choice(FORMATS)
        dcase = disk.gen_case(rng.getrandbits(50), "C08", tier, fmt=fmt)
        if rng.random() < 0.2:  # cache-overflow geometry: many mapping tables touched
            F = disk.fmt_module(fmt)
            sp = getattr(F, "spray", None)
            if sp is not None:
                from hvsim import gen

                stride, count = sp(dcase["cfg"])
                if stride:
                    dcase["ops"] = gen.spray_ops(rng, dcase["cfg"]["nsectors"], F.unit_sectors(dcase["cfg"]), stride, count, 7000,
                                                 gran=F.sector_size(dcase["cfg"]) // 512) + dcase["ops"]
        sweep = None
        if fmt == "vhd" and rng.random() < 0.02:
            # more allocation units than any per-object table cache holds (4096 and a few), small enough to sweep front to back
            cfgv = dcase["cfg"]
            cfgv["fixed"] = False
            cfgv["block"] = 2048
            cfgv["nsectors"] = (cfgv["block"] // 512) * rng.choice([4097, 4100, 4200]) - rng.choice([0, 1])
            cfgv["far"] = False
            from hvsim import gen

            dcase["ops"] = gen.spray_ops(rng, cfgv["nsectors"], cfgv["block"] // 512, 1, 4300, 7000, gran=1)[:4300]
            sweep = rng.choice([1024, 1536])
        src = {"kind": "stub", "fmt": fmt, "cfg": dcase["cfg"], "ops": dcase["ops"], "open": dcase["open"]}
        F = disk.fmt_module(fmt)
        size = dcase["cfg"]["nsectors"] * 512
        sector = F.sector_size(dcase["cfg"])
        unit_bytes = F.unit_sectors(dcase["cfg"]) * 512
        has_rs = F.has_read_sectors
        layers, _ = disk.build_model(dcase)
        marks = disk._marks(layers[0], dcase["ops"], F.unit_sectors(dcase["cfg"]), F, dcase["cfg"])
    aligns = [a for a in ALIGNS if a % sector == 0]
    a1 = rng.choice(aligns)
    a2 = rng.choice(aligns)
    nops = rng.choice([10, 20, 40] if tier == "quick" else [10, 30, 80, 200, 400])
    nclients = len(src["views"]) if src["kind"] == "chain" else rng.choice([1, 1, 2])
    hist = _gen_history(rng, size, sector, unit_bytes, marks, nops, nclients, [a1, a2], has_rs)
    if src["kind"] == "stub" and locals().get("sweep"):
        # front-to-back copy in small pieces through one object (every block is looked up, most reads continue the previous one)
        a1 = a2 = 512
        nclients = 1
        hist = [["seek", 0, 0, 0]] + [["read", 0, sweep]] * (size // sweep + 2)
        sweep_flag = True
    case = {"engine": "history", "prop": prop, "seed": seed, "src": src, "aligns": [a1, a2], "nclients": nclients,
            "cache": rng.choice([None, None, 1, 2, 7]), "hist": hist}
    # two reader objects built over one and the same caller-supplied handle object, used alternately: every reader positions
    # the handle itself before it reads, so what one object returns cannot depend on what the other one did in between
    case["share_handle"] = src["kind"] == "stub" and nclients == 2 and rng.random() < 0.4
    case["sweep"] = bool(locals().get("sweep_flag"))
    # fault-injecting configuration (kept apart from the fault-free one): transient I/O errors armed between operations. An
    # operation that meets one may fail; what any operation returns - then or later - must still be the right bytes.
    if not case["sweep"] and rng.random() < 0.15:
        hist2 = []
        for op in hist:
            if rng.random() < 0.08:
                # (real samples are literal bytes throughout - the storage fake cannot tell their tables from their payload - so the
                # short-delivery flavour, which only applies to field-structured metadata, is kept to the stub worlds)
                kinds = ["eio", "eio", "eio_partial", "short_meta"] if src["kind"] != "fixture" else ["eio", "eio_partial"]
                hist2.append(["eio", 0, rng.choice([1, 1, 2, 3, 5, 8]), rng.choice(kinds)])
            hist2.append(op)
        case["hist"] = hist2
        case["io_faults"] = True
    return case


@lru_cache(None)
def _fixture_geom(name: str):
    w = World("g")
    with w.fs:
        p = fixtures.install(w, name)
        s = fixtures.open_disk(w, name, p)
        fmt = fixtures.DISK_FIXTURES[name][0]
        return s.size, 512, 1 << 20, fmt in ("vhd", "vhdx", "vmdk")


def _gen_history(rng, size, sector, unit, marks, nops, nclients, aligns, has_rs):
    ops = []
    big_ok = size <= (8 << 20)
    amax = max(aligns)
    for _ in range(nops):
        c = rng.randrange(nclients)
        r = rng.random()
        base = rng.choice(marks) if (marks and rng.random() < 0.6) else rng.randrange(size + 1)
        delta = rng.choice([0, 0, -1, 1, -sector, sector, -amax, amax, -rng.randint(0, 2 * amax), rng.randint(0, amax)])
        pos = max(0, base + delta)
        n = rng.choice([0, 1, 2, sector - 1, sector, sector + 1, 4096, 8192, 8191, 8193, aligns[0], aligns[0] + 1,
                        max(1, aligns[1] - 1), 3 * aligns[0] + 7, unit, unit + 1, rng.randint(1, 100000)])
        n = min(n, 4 << 20)
        if nclients > 1 and rng.random() < 0.12:
            # every client reads the same range, one after the other
            order = list(range(nclients))
            rng.shuffle(order)
            for cc in order:
                ops.append(["readoffset", cc, min(pos, size + 3), n])
            continue
        if r < 0.22:
            wh = rng.choice([0, 0, 1, 2])
            if wh == 0:
                arg = min(pos, size + amax)
            elif wh == 1:
                arg = rng.choice([0, 1, -1, sector, -sector, amax, -amax, rng.randint(-size - 10, size + 10) if size < (1 << 30) else rng.randint(-10**6, 10**6)])
            else:
                arg = -rng.choice([0, 0, 1, sector, amax, unit, rng.randint(0, min(size, 1 << 22)), size + 5])
            ops.append(["seek", c, arg, wh])
        elif r < 0.55:
            ops.append(["read", c, n])
        elif r < 0.62:
            ops.append(["readinto", c, n])
        elif r < 0.70:
            ops.append(["peek", c, n])
        elif r < 0.84:
            ops.append(["readoffset", c, min(pos, size + 3), n])
        elif r < 0.88:
            ops.append(["readall", c] if big_ok else ["read", c, n])
        elif r < 0.91 and big_ok:
            ops.append(["read", c, -1])
        elif r < 0.94:
            ops.append(["tell", c])
        elif has_rs and size >= sector:
            s = min(pos // sector, size // sector - 1)
            cnt = max(1, min(max(1, n // sector), size // sector - s, (4 << 20) // sector))
            ops.append(["rs", c, s, cnt])
        else:
            ops.append(["read", c, n])
    return ops


def _open(world: World, case: dict):
    src = case["src"]
    if src["kind"] == "chain":
        cc = src["ccase"]
        open_fn, views, expect_fail, rs_fn = chains.build(cc, world)
        world.chain_views = views  # reference content of every view (layered worlds are also compared with their model)
        return open_fn, (rs_fn if cc["kind"] in ("vhdx", "vmdk") else None), cc["sector"]
    if src["kind"] == "fixture":
        p = fixtures.install(world, src["name"])
        return lambda: fixtures.open_disk(world, src["name"], p), _rs_fn(fixtures.DISK_FIXTURES[src["name"]][0]), 512
    dcase = {"fmt": src["fmt"], "cfg": src["cfg"], "ops": src["ops"], "prop": "C08"}
    F, layers, view, img, main = disk.build(dcase, world)
    return (lambda: F.open(world, main, img, src["open"])), (F.read_sectors if F.has_read_sectors else None), F.sector_size(src["cfg"])


def _rs_fn(fmt):
    if fmt == "vhd":
        return lambda s, a, b: s.disk.read_sectors(a, b)
    if fmt in ("vhdx", "vmdk"):
        return lambda s, a, b: s.read_sectors(a, b)
    return None


def _shrink_caches(stream, k: int):
    """Re-wrap the reader's per-object lru_caches with a tiny size so eviction/reload paths run on small images."""
    from functools import lru_cache as lc

    def rewrap(obj, attr):
        fn = getattr(obj, attr, None)
        w = getattr(fn, "__wrapped__", None)
        if w is not None:
            setattr(obj, attr, lc(k)(w))

    rewrap(stream, "l2_table")
    bat = getattr(stream, "bat", None)
    if bat is not None and not isinstance(bat, list):
        rewrap(bat, "get")
    d = getattr(stream, "disk", None)
    if d is not None and getattr(d, "bat", None) is not None:
        rewrap(d.bat, "get")
    for sd in getattr(stream, "disks", []) or []:
        rewrap(sd, "_lookup_grain_table")


def run_case(case: dict) -> RunResult:
    world = World("h")
    log = world.log
    prop = case["prop"]
    src = case["src"]
    sig = {"src": src["kind"], "fmt": src.get("fmt") or (src["ccase"]["kind"] if src["kind"] == "chain" else fixtures.DISK_FIXTURES[src["name"]][0])}
    viol = None
    knowns = {}
    view_of = src["views"] if src["kind"] == "chain" else None
    keys, ntkeys = set(), set()

    def v(klass, detail):
        return Violation(prop, klass, log.seq, detail, dict(sig, klass=klass))

    with world.fs, monitored():
        opener, rs_fn, sector = _open(world, case)
        for pass_no, align in enumerate(case["aligns"]):
            if viol or (pass_no and case.get("sweep")):
                break
            set_stream_align(align)
            streams = {}
            shared_handles = {}
            if src["kind"] == "chain" and pass_no:
                opener, rs_fn, sector = _open(world, case)  # a fresh set of shared objects for the second buffer size
            size = None
            pos = {}

            def get_stream(c):
                """Clients are opened lazily, at their first operation: a view opened after another view has been used sees
                whatever state that use left in shared objects."""
                if c not in streams:
                    with metered(STEP_LIMIT, "loop", world.step_allowance(STEP_LIMIT, 2.0, 1 << 22)):
                        if src["kind"] == "chain":
                            st = chain_open(src["views"][c])
                        elif case.get("share_handle"):
                            real = world.handle

                            def one_handle(path, named=True, _memo=shared_handles, _real=real):
                                if (path, named) not in _memo:
                                    _memo[(path, named)] = _real(path, named)
                                _memo[(path, named)].seek(0)  # constructors parse from the current position: rewinding is the caller's part
                                return _memo[(path, named)]

                            world.handle = one_handle
                            try:
                                st = opener()
                            finally:
                                world.handle = real
                        else:
                            st = opener()
                        if case["cache"]:
                            _shrink_caches(st, case["cache"])
                    streams[c] = st
                    pos[c] = 0
                    log.add("acquirer", "open", [pass_no, align, c], st.size)
                return streams[c]

            if src["kind"] == "chain":
                chain_open = opener
            try:
                size = get_stream(case["hist"][0][1] if case["hist"] else 0).size
            except BudgetExceeded:
                viol = v("budget", "open did not finish within the step budget")
                break
            except Exception as e:
                viol = v("raised:" + type(e).__name__, f"open raised {type(e).__name__}: {e}"[:300])
                break
            for op in case["hist"]:
                kind, c = op[0], op[1]
                if kind == "eio":
                    world.arm_io_fault(op[2], op[3] if len(op) > 3 else "eio")
                    log.add("injector", "arm-" + (op[3] if len(op) > 3 else "eio"), op[2], len(world.handles))
                    continue
                fired0 = world.io_faults_fired()
                try:
                    s = get_stream(c)
                except BudgetExceeded:
                    viol = v("budget", "open did not finish within the step budget")
                    break
                except Exception as e:
                    if world.io_faults_fired() > fired0:
                        world.probes["stream.open_failed_on_injected_eio"] += 1
                        continue  # opening met an injected I/O error: the client tries again at its next operation
                    viol = v("raised:" + type(e).__name__, f"open of client {c} raised {type(e).__name__}: {e}"[:300])
                    break
                try:
                    with metered(STEP_LIMIT, "loop", world.step_allowance(STEP_LIMIT, 2.0, (8 << 20))):
                        got, at = None, None
                        if kind == "seek":
                            ret = s.seek(op[2], op[3])
                            want = op[2] if op[3] == 0 else max(0, pos[c] + op[2]) if op[3] == 1 else max(0, size + op[2])
                            pos[c] = want
                            log.add(f"c{c}", "seek", op[2:], ret)
                            if ret != want or s.tell() != want:
                                viol = v("position", f"{op}: seek returned {ret}, tell {s.tell()}, model {want}")
                                break
                            continue
                        if kind == "tell":
                            ret = s.tell()
                            log.add(f"c{c}", "tell", None, ret)
                            if ret != pos[c]:
                                viol = v("position", f"tell {ret} != model {pos[c]}")
                                break
                            continue
                        if kind in ("read", "readinto", "peek"):
                            n = op[2]
                            at = pos[c]
                            want_len = max(0, size - at) if n < 0 else min(n, max(0, size - at))
                            if kind == "read":
                                got = s.read(n)
                            elif kind == "peek":
                                got = s.peek(n)
                            else:
                                ba = bytearray(n)
                                cnt = s.readinto(ba)
                                got = bytes(ba[:cnt])
                            if kind != "peek":
                                pos[c] = at + want_len
                        elif kind == "readoffset":
                            at = op[2]
                            want_len = min(op[3], max(0, size - at))
                            got = s.readoffset(op[2], op[3])
                            pos[c] = at + want_len
                        elif kind == "readall":
                            at = pos[c]
                            want_len = max(0, size - at)
                            got = s.readall()
                            pos[c] = at + want_len
                        elif kind == "rs":
                            at = op[2] * sector
                            want_len = op[3] * sector
                            got = rs_fn(s, op[2], op[3])
                except BudgetExceeded:
                    viol = v("budget", f"{op} did not finish within the step budget")
                    break
                except Exception as e:
                    tb = traceback.extract_tb(e.__traceback__)[-1]
                    log.add(f"c{c}", kind, op[2:], "raised:" + type(e).__name__)
                    if world.io_faults_fired() > fired0:
                        # the operation met an injected I/O error: failing is fine. The client re-positions and carries on.
                        world.probes["stream.op_failed_on_injected_eio"] += 1
                        try:
                            s.seek(pos[c])
                        except Exception as e2:
                            viol = v("raised:" + type(e2).__name__, f"seek({pos[c]}) after a failed {kind} raised {type(e2).__name__}: {e2}"[:300])
                            break
                        continue
                    viol = v("raised:" + type(e).__name__, f"{op} (align {align}) raised {type(e).__name__}: {e} at "
                                                            f"{tb.filename.rsplit('/', 1)[-1]}:{tb.lineno}"[:300])
                    break
                log.add(f"c{c}", kind, op[2:], got)
                key = (sig["fmt"], kind, align, "tail" if at + want_len >= size else "", "unal" if at % align else "al",
                       "big" if want_len > align else "small", case["cache"])
                keys.add(key)
                if want_len and (at % align or want_len % align):
                    ntkeys.add(key)
                if len(got) != want_len:
                    viol = v("length", f"{op} at {at} (align {align}): got {len(got)} bytes, contract says {want_len} (size {size})")
                    break
                if kind != "rs" and s.tell() != pos[c]:
                    viol = v("position", f"{op}: position {s.tell()} after the call, contract says {pos[c]}")
                    break
                if view_of is not None and getattr(world, "chain_views", None) is not None and want_len:
                    # layered worlds: "the corresponding slice" is known - the view's reference content
                    want = world.chain_views[view_of[c]].expected(at, want_len)
                    if got != want:
                        viol = v("not-the-view", f"{op} through view {view_of[c]} (align {align}, pass {pass_no}): returned bytes differ from that view's "
                                                 f"content at +{first_mismatch(got, want)}")
                        break
                known = knowns.setdefault(view_of[c] if view_of else 0, Known())
                bad = known.check_learn(at, got)
                if bad >= 0:
                    viol = v("inconsistent", f"{op} (align {align}, pass {pass_no}): byte at offset {bad} differs from what an "
                                             f"earlier operation returned for the same offset")
                    break
    res = RunResult(log, viol)
    res.keys, res.nontrivial_keys = keys, ntkeys
    res.probes[f"stream.src_{src['kind']}"] = 1
    if case["cache"]:
        res.probes["stream.cache_shrunk"] = 1
    if case["aligns"][0] != case["aligns"][1]:
        res.probes["stream.two_buffer_sizes"] = 1
    if max(case["aligns"]) >= (1 << 20):
        res.probes["stream.align_ge_1MiB"] = 1
    res.probes["stream.fmt_" + sig["fmt"]] = 1
    res.faults.update(world.faults_fired)
    res.probes.update(world.probes)
    if case.get("io_faults"):
        res.probes["stream.config_io_faults"] = 1
    return res


def preload():
    for fmt, files, main in fixtures.DISK_FIXTURES.values():
        pass
    import os

    for name in fixtures.DISK_FIXTURES:
        fmt, files, main = fixtures.DISK_FIXTURES[name]
        if files:
            for src in files.values():
                fixtures.raw(src)
        else:
            d = os.path.join(fixtures.DATA, name)
            for fn in sorted(os.listdir(d)):
                fixtures.raw(name + "/" + fn)


SHRINK_LISTS = ["hist"]


def simplify(case):
    """Candidates: single pass, single client, no cache shrink, fewer writer ops."""
    if case["aligns"][0] != case["aligns"][1]:
        for a in case["aligns"]:
            yield dict(case, aligns=[a, a])
    elif len(case["aligns"]) == 2:
        yield dict(case, aligns=[case["aligns"][0]])
    if case["cache"]:
        yield dict(case, cache=None)
    if case["src"]["kind"] == "stub" and case["src"]["ops"]:
        ops = case["src"]["ops"]
        for i in range(len(ops)):
            yield dict(case, src=dict(case["src"], ops=ops[:i] + ops[i + 1 :]))
