"""C07 - layer precedence in differencing / delta / snapshot chains; an unresolved parent must make open fail.

A layered writer history (base ops -> create_overlay -> child ops -> ...) is rendered into one image per layer on the
simulated namespace.  Oracle 1: n-layer overlay model.  Oracle 2 (namespace faults): with the parent missing,
unreadable, corrupted or unnamed, the constructor must raise - presenting the child alone is the violation."""
from __future__ import annotations

import traceback

from hvsim import gen
from hvsim.core import BudgetExceeded, RunResult, Violation, metered, rng_for, set_stream_align
from hvsim.model import ExtView, Layer, View, describe, first_mismatch, slice_layer
from hvsim.simfs import SimFile, monitored
from hvsim.world import World
from hvsim.writers import hds as WH
from hvsim.writers import qcow2 as WQ
from hvsim.writers import vdi as WD
from hvsim.writers import vhdx as WX
from hvsim.writers import vmdk as WV
from hvsim.writers.common import put_view

STEP_LIMIT = 600_000
KINDS = ["vhdx", "vmdk", "hdd", "qcow2", "qcow2snap", "vdi"]
FAULTS = ["missing_parent", "eacces_parent", "corrupt_parent", "no_name", "empty_hint", "no_backing_arg", "missing_image"]


# ---------------------------------------------------------------------------------------------------------
# generation
# ---------------------------------------------------------------------------------------------------------


def gen_case(seed: int, prop: str, tier: str, kind: str | None = None) -> dict:
    rng = rng_for(seed, "chains")
    kind = kind or rng.choice(KINDS)
    depth = rng.choice([2, 2, 3, 3, 4, 5] if tier == "quick" else [2, 3, 4, 5, 6])
    case = {"engine": "chains", "prop": prop, "seed": seed, "kind": kind, "align": rng.choice([8192] * 5 + [512, 4096, 65536]),
            "fault": None, "loc": rng.choice(["same", "same", "sibling", "absolute", "stale_abs_local"])}
    layers = []
    if kind == "vhdx":
        base = WX.gen_cfg(rng, tier)
        base["fixed"] = False
        base["unknown_item"] = False
        if base["nsectors"] * 512 > (8 << 30):
            base["nsectors"] = (base["block"] // 512) * 3 + 8 * rng.randrange(100)
        gran = base["lss"] // 512
        for i in range(depth):
            cfg = dict(base)
            if i:
                cfg["block"] = rng.choice([1, 2, 8]) << 20 if rng.random() < 0.5 else base["block"]
                cfg["alloc"] = rng.choice(["seq", "logical", "rev", "perm", "gaps"])
                cfg["alloc_seed"] = rng.getrandbits(32)
                cfg["id_seed"] = rng.getrandbits(32)
                cfg["meta_order"] = rng.getrandbits(16)
            layers.append({"cfg": cfg, "unit": cfg["block"] // 512, "gran": gran})
        case["sector"] = base["lss"]
    elif kind == "vmdk":
        nsectors = rng.choice([64, 200, 1000, 4096, 5000, 20000, 70000])
        for i in range(depth):
            k = rng.choice(["hosted", "cowd", "sesparse"]) if i else rng.choice(["hosted", "cowd", "sesparse", "flat"])
            grain = {"hosted": rng.choice([8, 16, 128]), "cowd": rng.choice([1, 8]), "sesparse": 8, "flat": 8}[k]
            nsec = nsectors
            # extents split the capacity at grain-aligned points
            nx = rng.choice([1, 1, 2, 3])
            cuts = sorted({(rng.randrange(1, max(2, nsec // grain))) * grain for _ in range(nx - 1)} - {0, nsec})
            bounds = [0] + [c for c in cuts if c < nsec] + [nsec]
            exts = []
            for j in range(len(bounds) - 1):
                c = WV.gen_cfg(rng, tier, kind=k)
                c.update(grain=grain, nsectors=bounds[j + 1] - bounds[j], embed_desc=False)
                if k == "hosted":
                    c["gtes"] = rng.choice([512, 16, 4])
                if exts:
                    c["zero_gte"] = exts[0]["zero_gte"]  # one capability set per layer
                exts.append(c)
            layers.append({"kind": k, "unit": grain, "gran": 1, "exts": exts, "bounds": bounds,
                           "embedded": (k == "hosted" and len(exts) == 1 and rng.random() < 0.4),
                           "cid": "%08x" % rng.getrandbits(32)})
        case["nsectors"] = nsectors
        case["sector"] = 512
    elif kind == "hdd":
        base = WH.gen_cfg(rng, tier)
        nsectors = base["nsectors"]
        nst = rng.choice([1, 1, 2, 3])
        cl = base["cluster"]
        cuts = sorted({rng.randrange(1, max(2, nsectors // cl)) * cl for _ in range(nst - 1)} - {0, nsectors})
        bounds = [0] + [c for c in cuts if c < nsectors] + [nsectors]
        for i in range(depth):
            cfgs = []
            for j in range(len(bounds) - 1):
                c = WH.gen_cfg(rng, tier)
                c.update(cluster=cl, nsectors=bounds[j + 1] - bounds[j])
                if c["ver"] == 1 and c["nsectors"] >= (1 << 32):
                    c["ver"] = 2
                cfgs.append(c)
            layers.append({"unit": cl, "gran": 1, "cfgs": cfgs, "plain": (i == 0 and rng.random() < 0.15),
                           "guid": WH.guid_str(rng.getrandbits(64))})
        case["bounds"] = bounds
        case["nsectors"] = nsectors
        case["top_mode"] = rng.choice(["default_guid", "default_guid", "topguid", "explicit"])
        case["storage_order"] = rng.random() < 0.5
        case["sector"] = 512
    elif kind in ("qcow2", "qcow2snap"):
        base = WQ.gen_cfg(rng, tier, backing="no")
        if base["nsectors"] * 512 > (1 << 30):
            base["nsectors"] = (1 << base["cluster_bits"]) // 512 * 5 + rng.randrange(100)
        n = depth if kind == "qcow2" else rng.choice([2, 3, 4])
        for i in range(n):
            cfg = WQ.gen_cfg(rng, tier, backing="no")
            if kind == "qcow2snap":
                cfg = dict(base)
            cfg["nsectors"] = base["nsectors"] if (kind == "qcow2snap" or rng.random() < 0.6) else max(1, base["nsectors"] + rng.choice([-1, 1]) * rng.randrange(1, 64))
            if kind == "qcow2" and i:
                cfg["backing"] = {"nsectors": 0, "name": f"L{i - 1}.qcow2", "format": rng.choice([None, "qcow2"])}
            layers.append({"cfg": cfg, "unit": WQ.unit_sectors(cfg), "gran": 1})
        if kind == "qcow2snap":
            case["raw_backing"] = rng.random() < 0.4
            for i, L in enumerate(layers[1:], 1):
                L["snap"] = {"id": str(i) * rng.choice([1, 1, 2, 5]), "name": rng.choice(["s", "snap", "snapshot %d" % i, "sñap"]) * rng.choice([1, 1, 3]),
                             "extra_size": rng.choice([0, 16, 24, 32]), "vm_state_size": rng.choice([0, 0, 4096]),
                             "vm_clock": rng.getrandbits(40), "date_sec": rng.getrandbits(31)}
        case["sector"] = 512
    else:  # vdi
        base = WD.gen_cfg(rng, tier)
        for i in range(depth):
            cfg = WD.gen_cfg(rng, tier)
            cfg["nsectors"] = base["nsectors"]
            if rng.random() < 0.6:
                cfg["block"] = base["block"]
            layers.append({"cfg": cfg, "unit": cfg["block"] // 512, "gran": 1})
        case["sector"] = 512
    # ops per layer
    wid = 1
    for i, L in enumerate(layers):
        nsec = _nsectors(case, L)
        caps = _caps(kind, L, i)
        nops = rng.choice([1, 2, 3, 5, 8])
        if kind == "qcow2snap":
            has_parent = bool(case.get("raw_backing"))
        else:
            has_parent = i > 0
        L["ops"] = gen.gen_layer_ops(rng, nsec, L["unit"], caps, nops, wid, has_parent, gran=L["gran"])
        if i and rng.random() < 0.35:
            # the guest rewrote what it had written before the layer was created: the same ranges and units (also the same
            # compressed / deallocated units) hold different content in neighbouring layers
            prev = layers[i - 1]
            echo = []
            for j, op in enumerate(prev["ops"]):
                if op[0] == "w" and op[1] < nsec and op[1] % L["gran"] == 0:
                    ln = min(op[2], nsec - op[1])
                    if ln > 0 and ln % L["gran"] == 0:
                        echo.append(["w", op[1], ln, wid + 50 + j])
                elif op[0] == "c" and prev["unit"] == L["unit"] and caps.get("compress") and op[1] * L["unit"] < nsec:
                    echo.append(list(op))
            L["ops"] = L["ops"] + echo if rng.random() < 0.5 else echo + L["ops"]
        wid += 100
    if kind == "qcow2snap" and case.get("raw_backing"):
        case["backing_ops"] = gen.gen_layer_ops(rng, layers[0]["cfg"]["nsectors"], layers[0]["unit"], {}, 3, 9000, False)
    case["layers"] = layers
    if case["align"] % case["sector"]:
        case["align"] = 8192
    # faults (namespace side) - 30% of the runs
    if rng.random() < 0.3:
        opts = {"vhdx": ["missing_parent", "eacces_parent", "corrupt_parent", "no_name", "missing_parent_twin"],
                "vmdk": ["missing_parent", "eacces_parent", "empty_hint", "no_name", "damaged_descriptor"],
                "hdd": ["missing_image", "eacces_parent"],
                "qcow2": ["no_backing_arg", "allow_no_backing"], "qcow2snap": ["no_backing_arg", "allow_no_backing"] if case.get("raw_backing") else [],
                "vdi": []}[kind]
        if opts:
            case["fault"] = rng.choice(opts)
            case["fault_layer"] = rng.randrange(0, max(1, len(layers) - 1))  # which ancestor is hit
    # requests against the top view (and each snapshot view)
    size = _nsectors(case, layers[-1] if kind != "qcow2snap" else layers[0]) * 512
    marks = {0, size}
    for L in layers:
        for op in L["ops"]:
            if op[0] in ("w", "z"):
                marks.update((op[1] * 512, (op[1] + op[2]) * 512))
    nreq = rng.choice([4, 8, 12] if tier == "quick" else [6, 12, 24])
    ub = layers[-1]["unit"] * 512
    reqs = gen.gen_requests(rng, size, ub, sorted(m for m in marks if m <= size), nreq, case["align"], case["sector"], max_len=1 << 21)
    cops = []
    for off, ln in reqs:
        if kind in ("qcow2snap", "hdd") and rng.random() < 0.35:
            # the same range through every view, one after the other (views share library objects: what one view fetched,
            # inflated or cached must not show through another)
            order = list(range(len(layers)))
            rng.shuffle(order)
            cops.extend(["r", vi, off, ln] for vi in order)
            continue
        view_i = rng.randrange(len(layers)) if kind in ("qcow2snap", "hdd") else len(layers) - 1
        if kind in ("vhdx", "vmdk") and rng.random() < 0.25:
            sec = case["sector"]
            s = off // sec
            c = max(1, min(max(1, ln // sec), size // sec - s))
            if s * sec < size:
                cops.append(["rs", view_i, s, c])
                continue
        cops.append(["r", view_i, off, ln])
    case["cops"] = cops
    case["share_obj"] = rng.random() < 0.5
    case["reopen"] = rng.random() < 0.3
    if rng.random() < 0.3 and cops and not case.get("fault"):
        case["eio"] = {str(rng.randrange(len(cops))): rng.choice([1, 1, 2, 3, 5, 8]) for _ in range(rng.choice([2, 3, 5]))}
        case["eio_kind"] = rng.choice(["eio", "eio", "eio_partial", "short_meta", "short_meta"])
        case["eio_warm"] = case["eio_kind"] != "short_meta" and rng.random() < 0.65  # cold: first loads meet the fault; warm: trace-guided
    return case


def _nsectors(case, L):
    if "cfg" in L:
        return L["cfg"]["nsectors"]
    return case["nsectors"]


def _caps(kind, L, i):
    if kind == "vhdx":
        return dict(WX.CAPS)
    if kind == "vmdk":
        return WV.caps(L["exts"][0])
    if kind == "hdd":
        return {"zero_units": False, "compress": False, "dealloc": not L.get("plain")}
    if kind in ("qcow2", "qcow2snap"):
        return WQ.caps(L["cfg"])
    return dict(WD.CAPS)


# ---------------------------------------------------------------------------------------------------------
# build
# ---------------------------------------------------------------------------------------------------------


def build_layers(case):
    kind = case["kind"]
    out = []
    for i, L in enumerate(case["layers"]):
        lay = Layer(10 + i, _nsectors(case, L), L["unit"])
        if kind == "qcow2snap":
            has_parent = bool(case.get("raw_backing"))
        else:
            has_parent = i > 0
        gen.apply_ops(lay, L["ops"], _caps(kind, L, i), has_parent)
        out.append(lay)
    return out


def _dirs(case, n):
    """Directory of each layer's files under the world root, per location configuration."""
    loc = case["loc"]
    if loc == "sibling":
        return ["vm%d" % i for i in range(n)]
    return ["vm"] * n


def build(case: dict, world: World):
    """Renders every layer. Returns (open_fn(view_index) -> stream, views list, expect_open_failure)."""
    kind = case["kind"]
    layers = build_layers(case)
    n = len(layers)
    views = [View(layers[i::-1]) for i in range(n)]  # view through layer i down to the base
    root = world.root
    fault = case.get("fault")
    fl = case.get("fault_layer", 0)
    expect_fail = False

    if kind == "vhdx":
        dirs = _dirs(case, n)
        names = ["base.vhdx"] + ["child %d.avhdx" % i for i in range(1, n)]
        if case["loc"] in ("absolute", "stale_abs_local"):
            world.fs.mount("/C:")
        for i, lay in enumerate(layers):
            cfg = case["layers"][i]["cfg"]
            pe = None
            if i:
                pdir, pname = dirs[i - 1], names[i - 1]
                if case["loc"] == "same":
                    rel, absw = ".\\" + pname, "C:\\gone\\" + pname
                elif case["loc"] == "sibling":
                    rel, absw = "..\\" + pdir + "\\" + pname, "C:\\gone\\" + pname
                elif case["loc"] == "absolute":
                    rel, absw = "..\\nowhere\\" + pname, "C:\\hv\\" + pdir + "\\" + pname
                else:  # stale absolute path, but a local copy next to the child
                    rel, absw = ".\\" + pname, "C:\\stale\\" + pname
                pe = [("parent_linkage", "{%s}" % WX._guid(cfg["id_seed"] + 1)), ("relative_path", rel),
                      ("volume_path", "\\\\?\\Volume{0eba351e}\\" + pname), ("absolute_win32_path", absw)]
            img = WX.render(cfg, lay, views[i], parent_entries=pe, name=names[i])
            if case["loc"] == "absolute" and i < n - 1:
                world.fs.add("/C:/hv/" + dirs[i] + "/" + names[i], img.files[names[i]])
                world.note_fields(img, names[i], "/C:/hv/" + dirs[i] + "/" + names[i])
            else:
                world.fs.add(root + "/" + dirs[i] + "/" + names[i], img.files[names[i]])
                world.note_fields(img, names[i], root + "/" + dirs[i] + "/" + names[i])
        paths = [(("/C:/hv/" if (case["loc"] == "absolute" and i < n - 1) else root + "/") + dirs[i] + "/" + names[i]) for i in range(n)]
        top = paths[-1]
        twin_top = None
        if fault == "missing_parent_twin" and n > 1 and case["loc"] in ("same", "sibling"):
            # the complete chain also exists elsewhere (the original VM directory next to an evidence copy that lacks an ancestor);
            # it is opened first and stays open. Same parent linkage, same names - but not where the copy's locator points.
            for i in range(n):
                world.fs.add(root + "/original/" + dirs[i] + "/" + names[i], world.fs.files[paths[i]])
            twin_top = root + "/original/" + dirs[-1] + "/" + names[-1]
            _apply_ns_fault(world, paths[min(fl, n - 2)], "missing_parent", 0)
            expect_fail = True
        elif fault == "missing_parent_twin":
            fault = None
        if fault in ("missing_parent", "eacces_parent", "corrupt_parent") and n > 1:
            tgt = paths[min(fl, n - 2)]
            _apply_ns_fault(world, tgt, fault, 0)
            expect_fail = True
        named = fault != "no_name"
        if fault == "no_name":
            expect_fail = True

        alive = {}

        def open_fn(vi):
            from pathlib import Path

            from dissect.hypervisor.disk.vhdx import VHDX

            if not named:
                return VHDX(world.handle(top, named=False))
            if twin_top and "twin" not in alive:
                alive["twin"] = VHDX(Path(twin_top))
                alive["twin"].read(512)
            return VHDX(Path(top)) if case["seed"] % 2 else VHDX(world.handle(top))

        return open_fn, views, expect_fail, (lambda s, a, b: s.read_sectors(a, b))

    if kind == "vmdk":
        dirs = _dirs(case, n)
        desc_paths = []
        for i, lay in enumerate(layers):
            L = case["layers"][i]
            d = root + "/" + dirs[i]
            pcid = case["layers"][i - 1]["cid"] if i else "ffffffff"
            hint = None
            if i:
                pname = "L%d.vmdk" % (i - 1)
                if case["loc"] == "sibling":
                    hint = "/orig/place/" + dirs[i - 1] + "/" + pname  # resolved through <dir>/../<last dir of hint>/<file>
                elif case["loc"] in ("absolute", "stale_abs_local"):
                    hint = "C:\\vms\\old\\" + pname if case["loc"] == "stale_abs_local" else "/somewhere/else/" + pname
                else:
                    hint = pname
                if fault == "empty_hint" and i - 1 == min(fl, n - 2):
                    hint = ""
                    expect_fail = True
            lines = []
            if L["embedded"]:
                sub = slice_layer(lay, 0, lay.n)
                cfg = dict(L["exts"][0], embed_desc=True, cid=L["cid"])
                img = WV.render(cfg, sub, views[i], name="L%d.vmdk" % i, parent_cid=pcid, parent_hint=hint)
                world.fs.add(d + "/L%d.vmdk" % i, img.files["L%d.vmdk" % i])
                world.note_fields(img, "L%d.vmdk" % i, d + "/L%d.vmdk" % i)
            else:
                tname = {"hosted": "SPARSE", "cowd": "VMFSSPARSE", "sesparse": "SESPARSE", "flat": "FLAT"}[L["kind"]]
                for j, cfg in enumerate(L["exts"]):
                    s, e = L["bounds"][j], L["bounds"][j + 1]
                    sub = slice_layer(lay, s, e - s)
                    xname = "L%d-x%03d.vmdk" % (i, j)
                    img = WV.render(cfg, sub, ExtView(views[i], s, e - s), name=xname)
                    world.fs.add(d + "/" + xname, img.files[xname])
                    world.note_fields(img, xname, d + "/" + xname)
                    lines.append(f'RW {e - s} {tname} "{xname}"' + (" 0" if tname == "FLAT" else ""))
                ctype = {"hosted": "twoGbMaxExtentSparse", "cowd": "vmfsSparse", "sesparse": "seSparse", "flat": "twoGbMaxExtentFlat"}[L["kind"]]
                text = WV.descriptor_text(L["cid"], pcid, ctype, lines, hint)
                f = SimFile()
                f.write(0, text.encode())
                world.fs.add(d + "/L%d.vmdk" % i, f)
            desc_paths.append(d + "/L%d.vmdk" % i)
        top = desc_paths[-1]
        if fault in ("missing_parent", "eacces_parent", "corrupt_parent") and n > 1:
            tgt = desc_paths[min(fl, n - 2)]
            _apply_ns_fault(world, tgt, fault, 0)
            expect_fail = True
        if fault == "no_name":
            expect_fail = True
        if fault == "damaged_descriptor":
            # a few bytes of the top layer's descriptor (which names the parent) are overwritten with bytes that are not UTF-8:
            # whatever the reader then does, it may not present the child without its parent
            tf = world.fs.files[top]
            embedded_top = case["layers"][-1].get("embedded")
            if n > 1:
                if embedded_top:
                    import struct as _st

                    doff = _st.unpack("<Q", tf.pread(28, 8))[0] * 512
                    txt = tf.pread(doff, 4096).split(b"\0", 1)[0]
                else:
                    doff, txt = 0, tf.pread(0, 1 << 16)
                spot = txt.find(b"# The Disk Data Base")
                spot = spot + 4 if spot >= 0 else max(0, len(txt) - 6)
                tf.write(doff + spot, b"\xff\xfe\xc3")
                world.faults_fired["damaged_descriptor"] += 1
                expect_fail = True

        def open_fn(vi):
            from pathlib import Path

            from dissect.hypervisor.disk.vmdk import VMDK

            if fault == "no_name":
                return VMDK(world.handle(top, named=False))
            return VMDK(Path(top)) if case["seed"] % 2 else VMDK(world.handle(top))

        return open_fn, views, expect_fail, (lambda s, a, b: s.read_sectors(a, b))

    if kind == "hdd":
        d = root + "/vm.pvm/disk.hdd"
        bounds = case["bounds"]
        storages = []
        guids = [L["guid"] for L in case["layers"]]
        top_mode = case["top_mode"]
        if top_mode == "default_guid":
            guids[-1] = WH.DEFAULT_TOP
        files = {}
        for j in range(len(bounds) - 1):
            s, e = bounds[j], bounds[j + 1]
            images = []
            for i, lay in enumerate(layers):
                L = case["layers"][i]
                fname = "disk.hdd.%d.%s.hds" % (j, guids[i])
                sub = slice_layer(lay, s, e - s)
                if L.get("plain"):
                    img = WH.render_plain(sub, ExtView(views[i], s, e - s), fname)
                    typ = "Plain"
                else:
                    img = WH.render(L["cfgs"][j], sub, ExtView(views[i], s, e - s), name=fname)
                    typ = "Compressed"
                files[fname] = img.files[fname]
                shown = fname
                if case["loc"] in ("absolute", "stale_abs_local"):
                    shown = "/original/host/vm.pvm/disk.hdd/" + fname  # absolute path of the machine it was taken from
                images.append((guids[i], typ, shown))
            storages.append({"start": s, "end": e, "blocksize": case["layers"][0]["unit"], "images": images})
        if case["storage_order"]:
            storages = storages[::-1]
        shots = [(guids[i], guids[i - 1] if i else WH.NULL_GUID) for i in range(n)]
        xml = WH.descriptor_xml(storages, shots[::-1] if case["seed"] % 2 else shots,
                                top_guid=(guids[-1] if (top_mode == "topguid" or (top_mode == "default_guid" and case["seed"] % 3)) else None),
                                disk_sectors=case["nsectors"])
        abs_live = case["loc"] == "absolute" and case["seed"] % 2 == 0 and not fault
        if abs_live:
            # the absolute paths the descriptor records still exist (the original bundle is mounted at its old place); files of the
            # same names in the bundle being opened are something else (an outdated copy): the recorded path is what counts
            world.fs.mount("/original")
            for fname, f in files.items():
                world.fs.add("/original/host/vm.pvm/disk.hdd/" + fname, f)
                decoy = SimFile()
                from hvsim.writers.common import put_poison

                put_poison(decoy, 0, max(512, f.length // 512 * 512), 0xDEC0)
                hdr = f.pread(0, 64)
                decoy.write(0, hdr)  # a plausible header, other content
                world.fs.add(d + "/" + fname, decoy)
            world.probes["chain.hdd_absolute_paths_exist_next_to_same_named_files"] += 1
        else:
            for fname, f in files.items():
                world.fs.add(d + "/" + fname, f)
        df = SimFile()
        df.write(0, xml.encode())
        world.fs.add(d + "/DiskDescriptor.xml", df)
        world.fs.add(d + "/disk.hdd", SimFile())
        if fault in ("missing_image", "eacces_parent"):
            j = 0
            fname = "disk.hdd.%d.%s.hds" % (j, guids[min(fl, n - 1)])
            _apply_ns_fault(world, d + "/" + fname, "missing_parent" if fault == "missing_image" else "eacces_parent", 0)
            case_fault_layer = min(fl, n - 1)
        else:
            case_fault_layer = None
        topguid_honoured = top_mode in ("default_guid",) or (top_mode == "topguid")

        shared = {}

        def open_fn(vi):
            from pathlib import Path

            from dissect.hypervisor.disk.hdd import HDD

            if case.get("share_obj"):
                # one HDD object serves every open() of the run (other snapshots, the same snapshot again)
                if "hdd" not in shared:
                    shared["hdd"] = HDD(Path(d))
                h = shared["hdd"]
            else:
                h = HDD(Path(d))
            if vi == n - 1 and top_mode != "explicit":
                return h.open()
            return h.open(guids[vi])

        # a missing image only matters for views that include that layer
        return open_fn, views, (case_fault_layer if case_fault_layer is not None else False), None

    if kind in ("qcow2", "qcow2snap"):
        d = root + "/vm"
        if kind == "qcow2":
            for i, lay in enumerate(layers):
                cfg = case["layers"][i]["cfg"]
                img = WQ.render(cfg, [WQ.Root(lay, views[i])], name="L%d.qcow2" % i)
                for nm, f in img.files.items():
                    world.fs.add(d + "/" + (nm if nm != "disk.data" else "L%d.data" % i), f)
                    world.note_fields(img, nm, d + "/" + (nm if nm != "disk.data" else "L%d.data" % i))

            def open_layer(i, mode):
                from dissect.hypervisor.disk import qcow2 as Q

                kw = {}
                if case["layers"][i]["cfg"]["data_file"]:
                    kw["data_file"] = world.handle(d + "/L%d.data" % i)
                if i > 0:
                    if fault == "no_backing_arg" and i == n - 1:
                        kw["backing_file"] = None
                    elif fault == "allow_no_backing" and i == n - 1:
                        kw["backing_file"] = Q.ALLOW_NO_BACKING_FILE
                    else:
                        kw["backing_file"] = open_layer(i - 1, mode)
                return Q.QCow2(world.handle(d + "/L%d.qcow2" % i), **kw)

            if fault == "no_backing_arg" and n > 1:
                expect_fail = True
            if fault == "allow_no_backing" and n > 1:
                views = list(views)
                views[-1] = OptOutView(layers[-1], views[-1], case["layers"][-1]["cfg"])  # opted out: the child alone over zeros

            return (lambda vi: open_layer(n - 1, None)), views, expect_fail, None
        # internal snapshots: layer 0 is the active image, the others are snapshot views, all over an optional raw backing
        below = []
        cfg0 = dict(case["layers"][0]["cfg"])
        if case.get("raw_backing"):
            bl = Layer(5, cfg0["nsectors"], cfg0["nsectors"])
            gen.apply_ops(bl, case["backing_ops"], {}, False)
            below = [bl]
            cfg0["backing"] = {"nsectors": bl.n, "name": "base.raw", "format": "raw"}
            bf = SimFile()
            put_view(bf, 0, View([bl]), 0, bl.n)
            bf.set_length(bl.n * 512)
            world.fs.add(d + "/base.raw", bf)
        views = [View([lay] + below) for lay in layers]
        roots = [WQ.Root(layers[0], views[0])] + [WQ.Root(layers[i], views[i], case["layers"][i]["snap"]) for i in range(1, n)]
        img = WQ.render(cfg0, roots, name="disk.qcow2")
        for nm, f in img.files.items():
            world.fs.add(d + "/" + nm, f)
            world.note_fields(img, nm, d + "/" + nm)
        state = {}

        def open_fn(vi):
            from dissect.hypervisor.disk import qcow2 as Q

            if "q" not in state:
                kw = {}
                if cfg0["data_file"]:
                    kw["data_file"] = world.handle(d + "/disk.data")
                if below:
                    if fault == "no_backing_arg":
                        kw["backing_file"] = None
                    elif fault == "allow_no_backing":
                        kw["backing_file"] = Q.ALLOW_NO_BACKING_FILE
                    else:
                        kw["backing_file"] = world.handle(d + "/base.raw")
                state["q"] = Q.QCow2(world.handle(d + "/disk.qcow2"), **kw)
            q = state["q"]
            return q if vi == 0 else q.snapshots[vi - 1].open()

        if fault == "no_backing_arg" and below:
            expect_fail = True
        if fault == "allow_no_backing" and below:
            views = [OptOutView(lay, views[i], cfg0) for i, lay in enumerate(layers)]
        return open_fn, views, expect_fail, None

    # vdi
    d = root + "/vm"
    for i, lay in enumerate(layers):
        img = WD.render(case["layers"][i]["cfg"], lay, views[i], parent=({} if i else None))
        world.fs.add(d + "/L%d.vdi" % i, img.files["disk.vdi"])
        world.note_fields(img, "disk.vdi", d + "/L%d.vdi" % i)

    def open_vdi(i):
        from dissect.hypervisor.disk.vdi import VDI

        return VDI(world.handle(d + "/L%d.vdi" % i), parent=open_vdi(i - 1) if i else None)

    return (lambda vi: open_vdi(n - 1)), views, False, None


class OptOutView:
    """Expected content of a QCOW2 image opened with ALLOW_NO_BACKING_FILE: clusters (sub-clusters) the image
    holds read as rendered (including data copied up from the backing chain), everything else as zeros."""

    def __init__(self, layer: Layer, full: View, cfg: dict):
        self.layer, self.full, self.cfg = layer, full, cfg
        self.n = layer.n
        self.layers = [layer]

    def segs(self, s, e):
        L = self.layer
        unit = L.unit
        sub = unit // 32 if self.cfg["extl2"] else unit
        out = []
        pos = s
        while pos < e:
            nxt = min(e, (pos // sub + 1) * sub)
            u = pos // unit
            st = L.ustate(u)
            held = False
            if st in ("data", "comp", "forced"):
                if self.cfg["extl2"] and st != "comp":
                    sa = (pos // sub) * sub
                    held = WQ._sc_state(L, sa, min(sa + sub, L.urange(u)[1]), self.cfg) == "alloc"
                else:
                    held = True
            if held:
                out.extend(self.full.segs(pos, nxt))
            else:
                out.append((pos, nxt, "Z"))
            pos = nxt
        return out

    sectors = View.sectors
    expected = View.expected
    kinds = View.kinds


def _apply_ns_fault(world: World, path: str, fault: str, _):
    if fault == "missing_parent":
        f = world.fs.files.pop(path, None)
        world.faults_fired["missing_parent"] += 1
    elif fault == "eacces_parent":
        world.fs.faults[path] = "eacces"
    elif fault == "corrupt_parent":
        f = world.fs.files[path]
        f.add_flip(0, "xor", 0xFF)
        f.add_flip(1, "xor", 0xFF)
        world.faults_fired["corrupt_parent"] += 1


# ---------------------------------------------------------------------------------------------------------
# run
# ---------------------------------------------------------------------------------------------------------


def run_case(case: dict) -> RunResult:
    world = World("c")
    log = world.log
    prop = case["prop"]
    set_stream_align(case["align"])
    sig = {"kind": case["kind"], "fault": case.get("fault") or "none", "loc": case["loc"]}
    viol = None
    keys, ntkeys = set(), set()

    def v(klass, detail):
        return Violation(prop, klass, log.seq, detail, dict(sig, klass=klass))

    with world.fs, monitored():
        open_fn, views, expect_fail, rs_fn = build(case, world)
        log.add("writer", "render", [case["kind"], len(case["layers"])], None)
        streams = {}
        sector = case["sector"]
        order = [op[1] for op in case["cops"]] or [len(views) - 1]
        if not case["cops"]:
            case_ops = [["open", len(views) - 1]]
        else:
            case_ops = case["cops"]
        for op_no, op in enumerate(case_ops):
            vi = op[1]
            if case.get("reopen") and vi in streams and (op_no + case["seed"]) % 2 == 0:
                del streams[vi]  # the view is opened again (a second stream object for the same state), the old one is dropped
                world.probes["chain.view_reopened"] += 1
            fails_here = expect_fail is True or (expect_fail is not False and not isinstance(expect_fail, bool) and vi >= expect_fail)
            if vi not in streams:
                try:
                    with metered(STEP_LIMIT, "loop", world.step_allowance(STEP_LIMIT, 2.0, 1 << 22)):
                        s = open_fn(vi)
                    log.add("acquirer", "open", vi, "ok")
                except BudgetExceeded:
                    viol = v("budget", "open did not finish within the step budget")
                    break
                except Exception as e:
                    log.add("acquirer", "open", vi, "raised:" + type(e).__name__)
                    if fails_here:
                        keys.add((case["kind"], "refused", case["fault"], case["loc"]))
                        ntkeys.add((case["kind"], "refused", case["fault"], case["loc"]))
                        world.probes["chain.refused_" + str(case.get("fault") or case["loc"])] += 1
                        continue
                    tb = traceback.extract_tb(e.__traceback__)[-1]
                    viol = v("raised:" + type(e).__name__, f"open of view {vi} raised {type(e).__name__}: {e} at "
                                                            f"{tb.filename.rsplit('/', 1)[-1]}:{tb.lineno}"[:400])
                    break
                if fails_here:
                    viol = v("served-without-parent", f"open of view {vi} succeeded although its chain cannot be resolved "
                                                       f"(fault={case.get('fault')}, loc={case['loc']})")
                    break
                streams[vi] = s
            if op[0] == "open" or vi not in streams:
                continue
            s = streams[vi]
            view = views[vi]
            size = view.n * 512
            if s.size != size:
                viol = v("size", f"view {vi}: size {s.size} != {size}")
                break
            arm = (case.get("eio") or {}).get(str(op_no))
            got = None
            warm_reads = []
            # with a fault: first the request without one (buffers and caches of every layer are warm and positioned), then with the
            # fault armed, then once more without
            for attempt_no, attempt in enumerate(((None, arm, None) if case.get("eio_warm") else (arm, None)) if arm else (None,)):
                fired0 = world.io_faults_fired()
                reads0 = [h.reads for _, h in world.handles]
                if attempt:
                    # fault-injecting configuration: a transient I/O fault inside this request. The warm attempt showed which
                    # handles (child, ancestors, extents, data files) the request reads from and how often: the fault is put on
                    # one of those (handle, n-th read) pairs, picked by the case, so that ancestors are hit as often as the top
                    # layer. The request may fail; it is then repeated without a fault.
                    pairs = [(hi, j) for hi, n_reads in enumerate(warm_reads) for j in range(1, min(n_reads, 6) + 1)]
                    # a fault on a later read of a multi-read request leaves more in-flight state behind than one on the first
                    pairs += [pr for pr in pairs if pr[1] >= 2] * 2
                    if pairs and case.get("eio_warm"):
                        hi, j = pairs[(attempt * 7919 + case["seed"]) % len(pairs)]
                        h = world.handles[hi][1]
                        h.eio_at, h.fault_kind = h.reads + j, case.get("eio_kind", "eio")
                        log.add("injector", "arm-" + case.get("eio_kind", "eio"), [hi, j], None)
                    else:
                        world.arm_io_fault(attempt, case.get("eio_kind", "eio"))
                try:
                    with metered(STEP_LIMIT, "loop", world.step_allowance(STEP_LIMIT, 2.0, 1 << 23)):
                        if op[0] == "r":
                            off, ln = op[2], op[3]
                            s.seek(off)
                            got = s.read(ln)
                        else:
                            off, ln = op[2] * sector, op[3] * sector
                            got = rs_fn(s, op[2], op[3])
                    world.disarm_io_faults()
                    if arm and attempt is None and attempt_no == 0:
                        warm_reads = [h.reads - (reads0[i] if i < len(reads0) else 0) for i, (_, h) in enumerate(world.handles)]
                    if arm and attempt_no < (2 if case.get("eio_warm") else 1):
                        want0 = view.expected(off, ln)
                        if got != want0:
                            i = first_mismatch(got, want0) if len(got) == len(want0) else -1
                            viol = v("mismatch" if i >= 0 else "short", f"{op} ({'while' if attempt else 'before'} an injected {case.get('eio_kind', 'eio')}): "
                                                                        f"returned bytes differ from the view's content" + (f" at +{i}" if i >= 0 else f" in length ({len(got)} vs {len(want0)})"))
                            break
                        continue
                    break
                except BudgetExceeded:
                    viol = v("budget", f"{op} did not finish within the step budget")
                    break
                except Exception as e:
                    if world.io_faults_fired() > fired0:
                        world.disarm_io_faults()
                        world.probes["chain.request_failed_on_injected_io_fault"] += 1
                        log.add("client", op[0], op[1:], "raised-on-eio:" + type(e).__name__)
                        continue
                    tb = traceback.extract_tb(e.__traceback__)[-1]
                    log.add("client", op[0], op[1:], "raised:" + type(e).__name__)
                    viol = v("raised:" + type(e).__name__, f"{op} raised {type(e).__name__}: {e} at {tb.filename.rsplit('/', 1)[-1]}:{tb.lineno}"[:300])
                    break
            if viol or got is None:
                if viol:
                    break
                continue
            seq = log.add("client", op[0], op[1:], got)
            want = view.expected(off, ln)
            src_layers = tuple(sorted({x[1] if x != "Z" else 0 for _, _, x in view.segs(off // 512, max(off // 512 + 1, (min(off + ln, size) + 511) // 512))})) if off < size and ln else ()
            key = (case["kind"], len(views), vi, len(src_layers), "mid" if off % (case["layers"][-1]["unit"] * 512) else "al", case["loc"])
            keys.add(key)
            if len(src_layers) >= 2:
                ntkeys.add(key + (src_layers,))
            if got != want:
                if len(got) != len(want):
                    viol = v("short" if len(got) < len(want) else "long", f"{op}: got {len(got)} bytes, want {len(want)}")
                else:
                    i = first_mismatch(got, want)
                    s0 = i - ((off + i) % 16)
                    s0 = s0 + 16 if s0 < 0 else s0
                    viol = v("mismatch", f"{op}: first wrong byte at +{i} (disk offset {off + i}): got {describe(got, s0)}, "
                                         f"want {describe(want, s0)}")
                break
    res = RunResult(log, viol)
    res.keys, res.nontrivial_keys = keys, ntkeys
    res.probes.update(world.probes)
    res.probes["chain.kind_" + case["kind"]] = 1
    res.probes["chain.depth_%d" % len(case["layers"])] = 1
    res.probes["chain.loc_" + case["loc"]] = 1
    if case.get("fault"):
        res.probes["chain.fault_" + case["fault"]] = 1
    res.faults.update(world.faults_fired)
    return res


SHRINK_LISTS = ["cops"]


def simplify(case):
    layers = case["layers"]
    for i, L in enumerate(layers):
        for j in range(len(L["ops"])):
            nl = [dict(x) for x in layers]
            nl[i]["ops"] = L["ops"][:j] + L["ops"][j + 1 :]
            yield dict(case, layers=nl)
