"""disksim: a stub writer peer drives an image through a seeded history; the real reader serves requests;
a reference model is the oracle (C01-C06; also the fault-free base of C08/C13/C14)."""
from __future__ import annotations

import traceback

from hvsim import gen
from hvsim.core import BudgetExceeded, RunResult, Violation, metered, set_stream_align
from hvsim.model import Layer, View, describe, first_mismatch
from hvsim.simfs import monitored
from hvsim.world import World

STEP_LIMIT = 400_000  # loop/call events per reader call in conformance worlds (fault-free calls need < 20k)


def fmt_module(fmt: str):
    import importlib

    return importlib.import_module("hvsim.formats." + fmt)


PROP_FMT = {"C01": "qcow2", "C02": "vmdk", "C03": "vhdx", "C04": "vhd", "C05": "vdi", "C06": "hds"}


# -- case generation ---------------------------------------------------------------------------------


def gen_case(seed: int, prop: str, tier: str, fmt: str | None = None) -> dict:
    from hvsim.core import rng_for

    rng = rng_for(seed, "disk")
    fmt = fmt or PROP_FMT[prop]
    F = fmt_module(fmt)
    big = rng.random() < getattr(F, "BIG_RATE", 0.02)
    cfg = F.gen_cfg(rng, tier, big)
    align = rng.choice([8192] * 6 + [512, 4096, 65536, 1 << 20]) if tier == "thorough" else rng.choice([8192] * 8 + [512, 65536])
    sector = F.sector_size(cfg)
    if align % sector:
        align = 8192
    nsectors = cfg["nsectors"]
    unit = F.unit_sectors(cfg)
    caps = F.caps(cfg)
    nops = rng.choice([0, 1, 2, 3, 3, 4, 6, 10, 20] if tier == "quick" else [0, 1, 2, 3, 4, 6, 10, 20, 40])
    ops = gen.gen_layer_ops(rng, nsectors, unit, caps, nops, 1, F.has_below(cfg), F.hot_units(cfg), gran=sector // 512)
    sp = getattr(F, "spray", None)
    if sp is not None and rng.random() < 0.06:
        stride, count = sp(cfg)
        if stride:
            ops = gen.spray_ops(rng, nsectors, unit, stride, count, 5000, gran=sector // 512) + ops
    case = {"engine": "disk", "prop": prop, "fmt": fmt, "seed": seed, "align": align, "cfg": cfg, "ops": ops}
    # requests are generated against the final layer state
    layers, view = build_model(case)
    marks = _marks(layers[0], ops, unit, F, cfg)
    nreq = rng.choice([3, 5, 8, 12] if tier == "quick" else [5, 10, 20, 40])
    unit_bytes = unit * 512
    maxlen = 1 << 21 if unit_bytes <= (1 << 21) else 1 << 22
    reqs = gen.gen_requests(rng, view.n * 512, unit_bytes, marks, nreq, align, sector, max_len=maxlen)
    cops = []
    for off, ln in reqs:
        if F.has_read_sectors and rng.random() < 0.2:
            s = off // sector
            c = max(1, min(ln // sector, (view.n * 512) // sector - s))
            if s * sector < view.n * 512:
                cops.append(["rs", s, c])
                continue
        cops.append(["r", off, ln])
    case["cops"] = cops
    case["open"] = rng.choice(F.open_modes(cfg))
    if rng.random() < 0.1 and cops:
        # fault-injecting configuration: a transient I/O error is armed before some requests (k-th read call from then on, on any
        # handle). The request may fail; repeated, it must return the right bytes (nothing wrong may have been remembered).
        case["eio"] = {str(rng.randrange(len(cops))): rng.choice([1, 1, 2, 3, 5]) for _ in range(rng.choice([1, 2, 3]))}
        case["eio_kind"] = rng.choice(["eio", "eio", "eio_partial", "short_meta", "short_meta"])
        # cold: the fault meets the first load of whatever the request needs (tables not cached yet) - the k-th read call from
        # now on, any handle; warm: the same request has just been served, the fault is placed by its trace
        case["eio_warm"] = case["eio_kind"] != "short_meta" and rng.random() < 0.5
        if rng.random() < 0.4:
            case["eio_open"] = rng.choice([1, 2, 3, 4, 6, 9])  # the fault meets the constructor: the k-th read call of the open
    if rng.random() < 0.12 and nsectors * 512 <= (64 << 20):
        # a twin: another image with the same geometry and the same identity fields (ids, UUIDs, CIDs - a backup copy or an
        # earlier state of the same disk) but other content and another placement, opened and read first in the same process.
        # Nothing the reader remembers about the twin may show through the image under test.
        t_nops = rng.choice([2, 4, 8])
        t_ops = gen.gen_layer_ops(rng, nsectors, unit, caps, t_nops, 700, F.has_below(cfg), F.hot_units(cfg), gran=sector // 512)
        t_ops += [["w", op[1], op[2], 800 + j] for j, op in enumerate(ops) if op[0] == "w"][:6]  # the same ranges, other content
        case["twin"] = {"ops": t_ops, "alloc": rng.choice(["seq", "logical", "rev", "perm", "gaps"]), "alloc_seed": rng.getrandbits(32)}
    return case


def _marks(layer: Layer, ops, unit, F, cfg):
    marks = {0, layer.n * 512}
    for op in ops:
        if op[0] in ("w", "z"):
            marks.add(op[1] * 512)
            marks.add((op[1] + op[2]) * 512)
        elif op[0] in ("d", "c", "f"):
            marks.add(op[1] * unit * 512)
            marks.add((op[1] + 1) * unit * 512)
    for u in F.hot_units(cfg):
        marks.add(u * unit * 512)
    return sorted(m for m in marks if 0 <= m <= layer.n * 512)


# -- world construction ------------------------------------------------------------------------------


def build_model(case: dict):
    F = fmt_module(case["fmt"])
    cfg = case["cfg"]
    layers_below, extra = F.below_layers(cfg)  # e.g. raw backing file for qcow2 (list of Layer, top first)
    top = Layer(10, cfg["nsectors"], F.unit_sectors(cfg))
    gen.apply_ops(top, case["ops"], F.caps(cfg), F.has_below(cfg))
    layers = [top] + layers_below
    return layers, View(layers)


def build(case: dict, world: World):
    F = fmt_module(case["fmt"])
    layers, view = build_model(case)
    img = F.render(case["cfg"], layers, view)
    main = world.install(img)
    return F, layers, view, img, main


# -- execution ---------------------------------------------------------------------------------------


def run_case(case: dict) -> RunResult:
    world = World("d")
    prop = case["prop"]
    set_stream_align(case["align"])
    F, layers, view, img, main = build(case, world)
    log = world.log
    log.add("writer", "render", [case["fmt"], len(case["ops"])], None)
    size = view.n * 512
    sig = {"fmt": case["fmt"], "features": F.features(case["cfg"])}
    viol = None
    stream = None
    keys = set()
    ntkeys = set()

    def v(klass, step, detail):
        return Violation(prop, klass, step, detail, dict(sig, klass=klass))

    with world.fs, monitored():
        if case.get("twin"):
            viol = _read_twin(case, world, F, v)
        if case.get("eio_open") and viol is None:
            # fault-injecting configuration, open time: every handle created from now on fails its k-th read call. The open may
            # fail; if it succeeds, what it serves must be right; either way the image is then opened again without a fault.
            kind = case.get("eio_kind", "eio")
            real_on = world.on_handle

            def arming(h, spath, _k=case["eio_open"], _kind=kind):
                real_on(h, spath)
                h.eio_at, h.fault_kind = _k, _kind

            world.on_handle = arming
            f0 = world.io_faults_fired()
            try:
                with metered(STEP_LIMIT, "loop", world.step_allowance(STEP_LIMIT, 2.0, img.meta_bytes)):
                    s1 = F.open(world, main, img, case["open"])
                    if s1.size != size:
                        viol = v("size", log.seq, f"opened while a read call failed: size {s1.size} != stored {size}")
                    for op in case["cops"][:3]:
                        if op[0] == "r" and viol is None:
                            world.on_handle = real_on
                            world.disarm_io_faults()
                            s1.seek(op[1])
                            got1 = s1.read(op[2])
                            if got1 != view.expected(op[1], op[2]):
                                viol = v("wrong-after-faulty-open", log.seq, f"{op}: an object whose constructor met an injected {kind} serves other bytes than the image holds")
                log.add("acquirer", "open-under-fault", case["eio_open"], "ok")
            except BudgetExceeded:
                viol = v("budget", log.seq, "open under an injected fault did not finish within the step budget")
            except Exception as e:
                log.add("acquirer", "open-under-fault", case["eio_open"], "raised:" + type(e).__name__)
                if world.io_faults_fired() == f0:
                    viol = v("raised:" + type(e).__name__, log.seq, f"open raised {type(e).__name__}: {e}"[:300])
            finally:
                world.on_handle = real_on
                world.disarm_io_faults()
            world.probes["open_under_injected_io_fault"] += 1
        try:
            with metered(STEP_LIMIT, "loop", world.step_allowance(STEP_LIMIT, 2.0, img.meta_bytes)):
                stream = F.open(world, main, img, case["open"])
            log.add("acquirer", "open", case["open"], "ok")
        except BudgetExceeded:
            viol = v("budget", log.seq, "open did not finish within the step budget")
        except Exception as e:  # conformant image must open
            log.add("acquirer", "open", case["open"], "raised:" + type(e).__name__)
            viol = v("raised:" + type(e).__name__, log.seq, f"open raised {type(e).__name__}: {e}"[:300])
        if viol is None and stream is not None and stream.size != size:
            viol = v("size", log.seq, f"size {stream.size} != stored {size}")
        if viol is None:
            sector = F.sector_size(case["cfg"])
            todo = []
            for i, op in enumerate(case["cops"]):
                k = (case.get("eio") or {}).get(str(i))
                if k and case.get("eio_warm"):
                    todo.append((op, None))  # warm: buffers and caches hold what the request needs
                todo.append((op, k))
                if k:
                    todo.append((op, None))  # the same request again, without a fault
            warm_reads = []
            for op, arm in todo:
                fired0 = world.io_faults_fired()
                reads0 = [h.reads for _, h in world.handles]
                if arm:
                    # the attempt before this one (same request, no fault) showed which handles are read and how often: the fault
                    # goes to one of those (handle, n-th read) pairs, later reads of a multi-read request preferred
                    pairs = [(hi, j) for hi, n_reads in enumerate(warm_reads) for j in range(1, min(n_reads, 6) + 1)]
                    pairs += [pr for pr in pairs if pr[1] >= 2] * 2
                    if pairs and case.get("eio_warm"):
                        hi, j = pairs[(arm * 7919 + case["seed"]) % len(pairs)]
                        h = world.handles[hi][1]
                        h.eio_at, h.fault_kind = h.reads + j, case.get("eio_kind", "eio")
                    else:
                        world.arm_io_fault(arm, case.get("eio_kind", "eio"))
                    log.add("injector", "arm-" + case.get("eio_kind", "eio"), arm, None)
                try:
                    with metered(STEP_LIMIT, "loop", world.step_allowance(STEP_LIMIT, 2.0, img.meta_bytes + op[2] * 512)):
                        if op[0] == "r":
                            off, ln = op[1], op[2]
                            stream.seek(off)
                            got = stream.read(ln)
                        else:
                            off, ln = op[1] * sector, op[2] * sector
                            got = F.read_sectors(stream, op[1], op[2])
                except BudgetExceeded:
                    viol = v("budget", log.seq, f"{op} did not finish within {STEP_LIMIT} steps")
                    break
                except Exception as e:
                    log.add("client", op[0], op[1:], "raised:" + type(e).__name__)
                    if world.io_faults_fired() > fired0:
                        world.probes["request_failed_on_injected_io_fault"] += 1
                        world.disarm_io_faults()
                        continue
                    tb = traceback.extract_tb(e.__traceback__)[-1]
                    viol = v("raised:" + type(e).__name__, log.seq,
                             f"{op} raised {type(e).__name__}: {e} at {tb.filename.rsplit('/', 1)[-1]}:{tb.lineno}"[:300])
                    break
                world.disarm_io_faults()  # an armed fault that did not fire during its request is withdrawn
                warm_reads = [h.reads - (reads0[i] if i < len(reads0) else 0) for i, (_, h) in enumerate(world.handles)]
                seq = log.add("client", op[0], op[1:], got)
                want = view.expected(off, ln)
                key = _state_key(case, view, off, ln, F)
                keys.add(key)
                if key[-1]:
                    ntkeys.add(key)
                if got != want:
                    if len(got) != len(want):
                        k = "short" if len(got) < len(want) else "long"
                        viol = v(k, seq, f"{op}: got {len(got)} bytes, want {len(want)}")
                    else:
                        i = first_mismatch(got, want)
                        s = i - ((off + i) % 16)
                        s = s + 16 if s < 0 else s
                        viol = v("mismatch", seq, f"{op}: first wrong byte at +{i} (disk offset {off + i}): got "
                                                  f"{describe(got, s)}, want {describe(want, s)}")
                    break
    res = RunResult(log, viol)
    res.keys = keys
    res.nontrivial_keys = ntkeys
    res.probes.update(F.probes(case, layers, view, img))
    res.probes.update(world.probes)
    res.faults.update(world.faults_fired)
    res.extra["ledger"] = world.total_ledger()
    return res


def _read_twin(case, world, F, v):
    """Render, open and read the twin image (in its own directory of the same world); its content is checked as well."""
    t = case["twin"]
    tcfg = dict(case["cfg"], alloc=t["alloc"], alloc_seed=t["alloc_seed"])
    tcase = dict(case, cfg=tcfg, ops=t["ops"])
    layers, view = build_model(tcase)
    img = F.render(tcfg, layers, view)
    main = world.install(img, "twin")
    size = view.n * 512
    try:
        with metered(STEP_LIMIT, "loop", world.step_allowance(STEP_LIMIT, 2.0, img.meta_bytes + (1 << 22))):
            s = F.open(world, main, img, case["open"])
            reqs = [[0, min(size, 1 << 20)], [max(0, size - 70000), 70000]] + [[op[1] * 512, min(op[2] * 512, 1 << 20)] for op in t["ops"] if op[0] == "w"][:8]
            for off, ln in reqs:
                s.seek(off)
                got = s.read(ln)
                world.log.add("client", "twin-r", [off, ln], got)
                want = view.expected(off, ln)
                if got != want:
                    return v("twin-mismatch", world.log.seq, f"twin image, read({off}, {ln}): content differs from its own model")
    except BudgetExceeded:
        return v("budget", world.log.seq, "reading the twin image did not finish within the step budget")
    except Exception as e:
        return v("raised:" + type(e).__name__, world.log.seq, f"twin image raised {type(e).__name__}: {e}"[:300])
    world.probes["twin_image_read_first"] = 1
    return None


def _state_key(case, view, off, ln, F):
    size = view.n * 512
    unit = F.unit_sectors(case["cfg"]) * 512
    end = min(off + ln, size)
    if ln == 0:
        rc = "zero-len"
    elif off >= size:
        rc = "past-end"
    else:
        cross = (max(end - 1, off) // unit) - (off // unit)
        rc = ("in1" if cross == 0 else "x1" if cross == 1 else "x2+") + ("-mid" if off % unit else "") + ("-tail" if end == size else "")
    kinds = tuple(view.kinds(off // 512, max(off // 512 + 1, (end + 511) // 512))) if off < size and ln else ()
    bigrams = tuple(sorted({(a[0], b[0]) for a, b in zip(kinds, kinds[1:])}))
    nontrivial = bool(len(kinds) >= 2 or rc.startswith("x") or "-mid" in rc)
    geom = F.geom_class(case["cfg"])
    return (case["fmt"], F.features(case["cfg"]), geom, bigrams, rc, case["align"], nontrivial)


SHRINK_LISTS = ["ops", "cops"]
