"""C11 (termination and bounded resources) and C12 (foreign / unsupported input is refused) by fault enumeration.

For every base input (stub images of every kind, chains, descriptor worlds, the repo's real fixtures) the engine
enumerates faults on the stored bytes - field-aware values for every field of the writer's field map, truncation at
every structure boundary, multi-byte corruption, reference cycles, inflate bombs, and 'late' variants applied
after open - and runs open + a bounded request set under the deterministic step meter and allocation meters.

C11 oracle: the call returns or raises an Exception within steps <= A + B*(input+request bytes) LINE events, peak
traced allocation <= C + D*(input+request bytes), and every inflate output <= the allocation unit it fills.
C12 oracle: for gate faults (every single-bit flip of each magic, unsupported versions, out-of-range geometry,
unsupported features) the open call must raise before any content accessor is reachable."""
from __future__ import annotations

import tracemalloc
import zlib as _zlib

from hvsim import bases
from hvsim.core import HarnessError, BudgetExceeded, RunResult, Violation, metered, rng_for, set_stream_align
from hvsim.simfs import SimFile, monitored
from hvsim.world import World

A_STEPS, B_STEPS = 1_000_000, 20
C_ALLOC, D_ALLOC = 64 << 20, 32
INDEXED = True
_plan_cache = {}


# ---------------------------------------------------------------------------------------------------------
# fault enumeration
# ---------------------------------------------------------------------------------------------------------


BATCH = 5
MID_COUNTS = (1 << 24, 1 << 26)


def _field_values(fld, cur: int, offsets: list[int], c12: bool, sizes: list[int] = ()):
    w = fld.width
    mx = (1 << (8 * w)) - 1
    vals = []
    if fld.kind == "magic":
        if c12:
            return [("xor", 1 << b) for b in range(8 * min(w, 16))]
        return [("xor", 1), ("xor", 1 << (8 * min(w, 8) - 1)), ("set", 0), ("set", mx)]
    if w > 8:
        return [("xor", 1), ("set", 0)]
    base = [0, 1, mx, mx - 1, (cur + 1) & mx, (cur - 1) & mx]
    if fld.kind == "offset":
        base += [fld.off, fld.off // 512, fld.off >> 20] + offsets[:6] + [o // 512 for o in offsets[:3]]
    elif fld.kind in ("count", "size"):
        base += [(cur * 2) & mx, 1 << 31 if w >= 4 else 1 << 7, (1 << 32) - 1 if w >= 4 else mx, cur // 2]
        if w >= 4 and not c12:
            # large enough to matter if something is sized by it, small enough that the allocation succeeds quietly
            base += list(MID_COUNTS)
            # two's complements: read as signed these step a walk backwards - by this structure's own length, by the length of
            # a neighbouring one, by a few bytes
            base += [(-cur) & mx, (-8) & mx, (-1 - cur) & mx] + [(-o) & mx for o in sizes[:6]]
    elif fld.kind == "version":
        base += (list(range(0, 8)) + [cur + 2, 0x100, 0x10000, 0x401, 0x3FF] + [cur ^ (1 << b) for b in range(8 * w)]) if c12 else [cur + 2]
    elif fld.kind == "flags":
        base += [cur ^ (1 << b) for b in range(min(8 * w, 24 if c12 else 8))]
    elif fld.kind == "table":
        return [("garble", 0)]
    seen = set()
    for v in base:
        v &= mx
        if v != cur and v not in seen:
            seen.add(v)
            vals.append(("set", v))
    return vals


def enumerate_faults(spec: dict, c12: bool) -> list:
    """All faults for one base input (built once to learn its field map and structure boundaries)."""
    w = World("e")
    with w.fs:
        b = bases.build(spec, w)
        faults = []
        offsets = []
        sizes = []
        for path, fld in b.fields:
            if fld.kind in ("offset", "size") and fld.width <= 8 and path in w.fs.files:
                cur = int.from_bytes(w.fs.files[path].pread(fld.off, fld.width), "little" if fld.endian == "<" else "big")
                if fld.kind == "offset":
                    offsets.append(cur)
                elif 0 < cur < (1 << 24) and cur not in sizes:
                    sizes.append(cur)
        for path, fld in b.fields:
            if path not in w.fs.files:
                continue
            raw = w.fs.files[path].pread(fld.off, min(fld.width, 8))
            cur = int.from_bytes(raw, "little" if fld.endian == "<" else "big") if fld.width <= 8 else 0
            for how, val in _field_values(fld, cur, offsets, c12, sizes):
                if c12 and not _is_gate(fld, how, val, cur):
                    continue
                rel = path[len(w.root):]  # world-independent
                faults.append(["field", rel, fld.name, fld.off, fld.width, fld.endian, how, val, "pre"])
                if not c12 and fld.kind in ("offset", "count", "size", "int") and how == "set" and val in (0, (1 << (8 * fld.width)) - 1):
                    faults.append(["field", rel, fld.name, fld.off, fld.width, fld.endian, how, val, "late"])
        if not c12:
            # truncation at structure boundaries +-1, and a few interior points
            for path in b.paths:
                f = w.fs.files.get(path)
                if f is None or f.length == 0:
                    continue
                cuts = {0, 1, f.length - 1, f.length // 2, 511, 512, 513}
                for p2, fld in b.fields:
                    if p2 == path:
                        cuts.update((fld.off - 1, fld.off, fld.off + fld.width, fld.off + fld.width + 1))
                ext = f._ext if len(f._ext) <= 60 else f._ext[:20] + f._ext[20:-20:max(1, (len(f._ext) - 40) // 20)] + f._ext[-20:]
                for st, en, _ in ext:
                    cuts.update((st, st + 1, en - 1, en, (st + en) // 2))
                cl = sorted(x for x in cuts if 0 <= x < f.length)
                if len(cl) > 90:
                    # the whole file is covered: the structures at the front, an even sample of the middle, the tail
                    cl = cl[:30] + cl[30:-30:max(1, (len(cl) - 60) // 30)] + cl[-30:]
                for c in cl:
                    faults.append(["trunc", path[len(w.root):], c])
                rng = rng_for(spec.get("fmt") or spec.get("name") or spec["type"], path.rsplit("/", 1)[1], "garble")
                for _ in range(10):
                    off = rng.randrange(0, min(f.length, 1 << 16))
                    faults.append(["garble", path[len(w.root):], off, rng.choice([1, 4, 16, 64, 512]), rng.getrandbits(32)])
    return faults


GATE_MAGICS = (
    "qcow2.hdr.magic", "vhdx.ident.signature", "vhdx.region1.signature", "vhdx.region2.signature", "vhdx.meta.signature",
    "vhdx.meta.locator_type", "vdi.hdr.Signature", "hds.hdr.m_Sig", "vmdk.footer.magic",
    "hyperv.replaylog.signature", "hyperv.objtable.signature", "hyperv.keytable.signature", "envelope.hdr.magic",
)


def _is_gate(fld, how, val, cur) -> bool:
    """C12: is this mutation one the property says must be refused at open? (whitelist taken from the property's
    mechanism list; signatures the readers do not validate by design - VHD cookie, VMDK(fh) on an unknown magic,
    inactive header copies, AEAD footer magic - are not gates)"""
    n = fld.name
    if n == "sesparse.hdr.magic":
        # a 64-bit constant: the dispatch on its low half decides *which* parser gets the file (not a gate, see above), the
        # SE-sparse parser itself owes the check of the high half
        return how == "xor" and val >= (1 << 32)
    if fld.kind == "magic":
        if n.startswith("hyperv.keytable") and n.endswith(".signature"):
            return True
        return n in GATE_MAGICS
    if fld.kind == "version":
        if n == "qcow2.hdr.version":
            return val not in (2, 3)
        if n == "envelope.hdr.version":
            return val != 2
        if n == "envelope.aeadfooter.version":
            return val != 1
        return False
    if n == "qcow2.hdr.cluster_bits":
        return val < 9 or val > 21
    if n == "qcow2.hdr.crypt_method":
        return val != 0
    return False


# explicit gates that are not single-field mutations of the generic kind (C12)
def explicit_gates(spec: dict) -> list:
    g = []
    t = spec["type"]
    if t == "stub" and spec["fmt"] == "qcow2":
        cfg = spec["cfg"]
        if cfg["version"] == 3:
            g.append(["qcow2_incompat", 4, "data-file bit without a data_file argument"])  # only when no data file
            if cfg["header_length"] > 104:
                g.append(["qcow2_comptype", 1, "zstd compression without the zstandard module"])
                for v in (2, 3, 7, 255):
                    g.append(["qcow2_comptype", v, "unknown compression type"])
                for v in (2, 255):
                    # the same unknown type with the incompatible bit left clear (a combination QEMU refuses as well):
                    # the stored type is what the clusters were written with, whatever the feature word says
                    g.append(["qcow2_comptype_nobit", v, "unknown compression type, feature bit clear"])
            g.append(["qcow2_extl2_small", 0, "extended L2 with sub-clusters below 512 bytes"])
        g.append(["qcow2_backing_no_arg", 0, "stored backing name but no backing_file argument"])
        g.append(["qcow2_backing_bad_name", 0, "stored backing name (not decodable) but no backing_file argument"])
    if t == "chain" and spec["ccase"]["kind"] == "hdd":
        for typ in ("Expanding", "compressed", "Raw", ""):
            g.append(["hdd_image_type", typ, "unsupported Parallels image type"])
        for which in ("base", "non_base"):
            g.append(["hdd_image_type_one", ["Expanding", which], "unsupported Parallels image type on one image of the chain"])
        g.append(["hdd_no_descriptor", 0, "missing DiskDescriptor.xml"])
    if t == "chain" and spec["ccase"]["kind"] == "vhdx":
        g.append(["vhdx_drop_region", "bat", "missing BAT region"])
        g.append(["vhdx_drop_region", "meta", "missing metadata region"])
        for item in ("file_parameters", "size", "lss", "disk_id"):
            g.append(["vhdx_drop_item", item, "missing required metadata item"])
        g.append(["vhdx_active_header_sig", 0, "active header signature"])
        for is_user in (0, 1):
            g.append(["vhdx_unknown_required_item", is_user, "unknown metadata item flagged IsRequired"])
    if t == "other" and spec["name"].startswith("hyperv:"):
        # the version is a 32-bit field: values that differ from the supported one in any single bit, low half or high half
        for v in [0x300, 0x500] + [0x400 ^ (1 << b) for b in range(32) if b != 10] + [0xFFFF0400]:
            g.append(["hyperv_active_version", v, "unsupported version in the active header"])
        g.append(["hyperv_active_sig", 0, "active header signature"])
    if t == "other" and spec["name"].startswith("envelope"):
        for nm in ("vmware.keyInfo", "vmware.cipherName", "vmware.keyHash"):
            g.append(["envelope_drop_attr", nm, "missing required attribute"])
        g.append(["envelope_cipher", "AES-128-GCM", "unsupported cipher"])
        g.append(["envelope_cipher", "AES-256-CBC", "unsupported cipher"])
    if t == "other" and spec["name"] == "keystore":
        for m in ("TPM", "USB", "none", ""):
            g.append(["keystore_mode", m, "unsupported keystore mode"])
    if t == "other" and spec["name"] == "vmx":
        for k in ("rawkey", "ldap", "script", "role", "fqid", "unknown"):
            g.append(["vmx_locator", k, "unsupported key locator kind"])
        g.append(["vmx_identifier", "vmware:keys", "wrong key safe identifier"])
    if t == "extents":
        g.append(["sparse_extent_magic", 0, "descriptor-named sparse extent with a foreign magic"])
    return g


# ---------------------------------------------------------------------------------------------------------
# plan (index -> case)
# ---------------------------------------------------------------------------------------------------------


def _plan(prop: str, tier: str, verif_seed: int):
    key = (prop, tier, verif_seed)
    if key not in _plan_cache:
        c12 = prop == "C12"
        specs = bases.all_specs(verif_seed, tier)
        plan = []
        for si, spec in enumerate(specs):
            faults = enumerate_faults(spec, c12)
            if c12:
                faults += [["gate"] + g for g in explicit_gates(spec)]
            else:
                cr = crafted(spec)
                # pairs: a decompression bomb together with one header field forced to zero or to its maximum (a bound taken
                # from the wrong copy of a header, or computed from a field nothing else uses, only shows with both)
                bombs = [c for c in cr if c[0].endswith("_inflate_bomb")][:2]
                for bomb in bombs:
                    for f in faults:
                        if f[0] == "field" and f[6] == "set" and f[8] == "pre" and ".hdr." in f[2] and f[4] <= 8 and f[7] in (0, (1 << (8 * f[4])) - 1):
                            cr.append(["bomb_plus_field", [bomb[0], bomb[1], f]])
                faults += [["crafted"] + c for c in cr]
                faults.append(["none"])
            for f in faults:
                plan.append((si, f))
        _plan_cache[key] = (specs, plan)
    return _plan_cache[key]


QUICK_STRIDE = {"C11": 4, "C12": 1}


def _indices(prop, tier, verif_seed):
    """Quick runs every QUICK_STRIDE-th field/truncation/garble fault plus every crafted fault, gate and control;
    thorough runs the whole plan."""
    specs, plan = _plan(prop, tier, verif_seed)
    stride = QUICK_STRIDE.get(prop, 1) if tier == "quick" else 1
    if stride == 1 and tier != "quick":
        return list(range(len(plan)))

    def costly(si, f):
        # a huge count on a >16 MiB real sample makes the reader parse the whole file as table entries: linear in the
        # input, inside the budget, but minutes of wall time - left to the thorough tier
        sp = specs[si]
        if sp["type"] != "fixture" and not (sp["type"] == "chain" and sp["ccase"]["kind"] == "vhdx") and not (sp["type"] == "stub" and sp["fmt"] == "vhdx"):
            return False
        return f[0] == "field" and any(t in f[2].lower() for t in ("count", "entries", "size", "length")) and isinstance(f[7], int) and f[7] >= (1 << 16)

    return [i for i, (si, f) in enumerate(plan)
            if (f[0] in ("crafted", "gate", "none") or (_mid(f) and f[7] == MID_COUNTS[-1]) or _neg(f) or (i + verif_seed) % stride == 0) and not costly(si, f)]


def _neg(f) -> bool:
    """A small negative number in two's complement (not the all-ones / all-ones-minus-one extremes every field gets anyway)."""
    if f[0] != "field" or f[6] != "set" or f[8] != "pre" or not isinstance(f[7], int) or f[4] < 4 or f[4] > 8:
        return False
    mx = (1 << (8 * f[4])) - 1
    return mx - (1 << 24) < f[7] < mx - 1


def _mid(f) -> bool:
    return f[0] == "field" and f[6] == "set" and f[7] in MID_COUNTS and f[8] == "pre"


def plan_size(prop, tier, verif_seed):
    return len(_indices(prop, tier, verif_seed))


def full_plan_size(prop, tier, verif_seed):
    return len(_plan(prop, tier, verif_seed)[1])


def gen_case(seed: int, prop: str, tier: str, index: int = 0, verif_seed: int = 1) -> dict:
    specs, plan = _plan(prop, tier, verif_seed)
    idx = _indices(prop, tier, verif_seed)
    si, fault = plan[idx[index % len(idx)]]
    return {"engine": "faultsim", "prop": prop, "seed": seed, "spec": specs[si], "fault": fault, "index": index,
            "trace_alloc": index % 4 == 0 or _mid(fault)}


def crafted(spec: dict) -> list:
    """Reference cycles and decompression bombs (C11)."""
    c = []
    t = spec["type"]
    if t == "chain" and spec["ccase"]["kind"] == "hdd":
        for n in (1, 2, 3, 4):
            c.append(["hdd_shot_cycle", n])
        for tail, ring in ((1, 1), (1, 3), (2, 2), (3, 4)):
            c.append(["hdd_shot_rho", [tail, ring]])
    if t == "other" and spec["name"].startswith("hyperv:"):
        c.append(["hyperv_objtable_self", 0])
        c.append(["hyperv_objtable_loop2", 0])
        for depth in (12, 20):
            c.append(["hyperv_objtable_dupchain", depth])
        c.append(["hyperv_entry_size_zero_walk", 0])
    if t == "chain" and spec["ccase"]["kind"] == "vhdx":
        c.append(["vhdx_parent_is_self", 0])
    if t == "chain" and spec["ccase"]["kind"] == "vmdk":
        c.append(["vmdk_parent_is_self", 0])
    if t == "stub" and spec["fmt"] == "vmdk" and spec["cfg"]["kind"] == "stream":
        for ratio in (64, 1024):
            c.append(["vmdk_inflate_bomb", ratio])
        for container in ("raw", "gzip"):  # a stream in another deflate framing than the format uses (a lenient fallback may accept it)
            c.append(["vmdk_inflate_bomb", [1024, container]])
    if t == "stub" and spec["fmt"] == "qcow2" and not spec["cfg"].get("data_file"):
        c.append(["qcow2_inflate_bomb", 1000])
        for container in ("zlib", "gzip"):
            c.append(["qcow2_inflate_bomb", [1000, container]])
    if t == "stub" and spec["fmt"] == "qcow2":
        c.append(["qcow2_l1_to_l1", 0])
    return c


# ---------------------------------------------------------------------------------------------------------
# applying faults
# ---------------------------------------------------------------------------------------------------------


def _set_bytes(f: SimFile, off: int, data: bytes):
    for i, byte in enumerate(data):
        f.add_flip(off + i, "set", byte)


def apply_fault(world: World, b, spec, fault, phase: str) -> bool:
    """Apply `fault` if it belongs to `phase` ('pre' | 'late'). Returns True when applied."""
    kind = fault[0]
    fs = world.fs
    if kind == "none":
        return False
    if kind == "field":
        _, rel, name, off, width, endian, how, val, when = fault
        path = world.root + rel
        if when != phase:
            return False
        if path not in fs.files:
            raise RuntimeError(f"fault target {rel} does not exist in this world")
        f = fs.files[path]
        if how == "xor":
            bitpos = max(0, val.bit_length() - 1)  # bit index over the field's bytes in storage order
            f.add_flip(off + bitpos // 8, "xor", 1 << (bitpos % 8))
        elif how == "set":
            w = min(width, 8)
            data = (val & ((1 << (8 * w)) - 1)).to_bytes(w, "little" if endian == "<" else "big")
            if width > 8:
                data = bytes([val & 0xFF]) * width
            if len(data) > 64:
                f.write(off, data)  # large tables: overwrite the stored bytes directly
            else:
                _set_bytes(f, off, data)
        else:  # garble a table
            rng = rng_for("garble", name)
            for i in range(0, min(width, 256), 3):
                f.add_flip(off + i, "xor", rng.randrange(1, 256))
        world.faults_fired["field_" + how] += 1
        return True
    if phase != "pre":
        return False
    if kind == "trunc":
        fs.files[world.root + fault[1]].trunc_at = fault[2]
        world.faults_fired["truncate"] += 1
        return True
    if kind == "garble":
        _, path, off, ln, seed = fault
        path = world.root + path
        if path in fs.files:
            rng = rng_for("g", seed)
            for i in range(ln):
                fs.files[path].add_flip(off + i, "set", rng.randrange(256))
            world.faults_fired["garble"] += 1
        return True
    if kind in ("crafted", "gate"):
        fn = globals()["_f_" + fault[1]]
        fn(world, b, spec, fault[2])
        world.faults_fired[fault[1]] += 1
        return True
    return False


def _find(world, suffix):
    for p in sorted(world.fs.files):
        if p.endswith(suffix):
            return p
    return None


def _rewrite_text(world, path, fn):
    f = world.fs.files[path]
    txt = f.pread(0, f.length).decode()
    nf = SimFile()
    nf.write(0, fn(txt).encode())
    world.fs.add(path, nf)


def _f_hdd_shot_cycle(world, b, spec, n):
    import re

    p = _find(world, "DiskDescriptor.xml")

    def fn(txt):
        guids = re.findall(r"<Shot>\s*<GUID>([^<]+)</GUID>", txt)
        guids = guids[: max(1, n)]
        shots = ""
        for i, g in enumerate(guids):
            parent = guids[(i + 1) % len(guids)]
            shots += f"<Shot><GUID>{g}</GUID><ParentGUID>{parent}</ParentGUID></Shot>"
        top = f"<TopGUID>{guids[0]}</TopGUID>"
        return re.sub(r"<Snapshots>.*</Snapshots>", "<Snapshots>" + top + shots + "</Snapshots>", txt, flags=re.S)

    _rewrite_text(world, p, fn)


def _f_hdd_shot_rho(world, b, spec, shape):
    """A tail of `tail` shots leading into a ring of `ring` shots that does not contain the snapshot being opened."""
    import re

    tail, ring = shape
    p = _find(world, "DiskDescriptor.xml")

    def fn(txt):
        guids = re.findall(r"<Shot>\s*<GUID>([^<]+)</GUID>", txt)
        extra = ["{%08x-0000-4000-8000-%012x}" % (0xABC00000 + i, i) for i in range(tail + ring)]
        # every existing snapshot becomes part of the tail, so whichever one is opened walks into the ring
        seq = guids + extra[:tail]
        ringg = extra[tail : tail + ring]
        shots = ""
        for i, g in enumerate(seq):
            parent = seq[i + 1] if i + 1 < len(seq) else ringg[0]
            shots += f"<Shot><GUID>{g}</GUID><ParentGUID>{parent}</ParentGUID></Shot>"
        for i, g in enumerate(ringg):
            shots += f"<Shot><GUID>{g}</GUID><ParentGUID>{ringg[(i + 1) % len(ringg)]}</ParentGUID></Shot>"
        m = re.search(r"<TopGUID>[^<]*</TopGUID>", txt)
        top = m.group(0) if m else ""
        return re.sub(r"<Snapshots>.*</Snapshots>", "<Snapshots>" + top + shots + "</Snapshots>", txt, flags=re.S)

    _rewrite_text(world, p, fn)


def _f_hdd_image_type(world, b, spec, typ):
    p = _find(world, "DiskDescriptor.xml")
    _rewrite_text(world, p, lambda t: t.replace("<Type>Compressed</Type>", f"<Type>{typ}</Type>").replace("<Type>Plain</Type>", f"<Type>{typ}</Type>"))


def _f_hdd_image_type_one(world, b, spec, arg):
    """Only one image of the chain gets the unsupported type: the base (arg 'base') or the one in the middle / top of the list
    (a chain is only as supported as its least supported member)."""
    import re

    typ, which = arg
    p = _find(world, "DiskDescriptor.xml")

    def edit(t):
        ms = list(re.finditer(r"<Type>(Compressed|Plain)</Type>", t))
        if len(ms) < 2:
            return t
        # images of one storage are listed in some order; pick by the GUID of the base snapshot (ParentGUID all zeros)
        shots = re.findall(r"<Shot>\s*<GUID>(\{[^}]+\})</GUID>\s*<ParentGUID>(\{[^}]+\})</ParentGUID>", t)
        base = [g for g, pg in shots if pg.strip("{}").replace("-", "").strip("0") == ""]
        target = None
        if which == "base" and base:
            for m in re.finditer(r"<Image>\s*<GUID>(\{[^}]+\})</GUID>\s*<Type>(Compressed|Plain)</Type>", t):
                if m.group(1) == base[0]:
                    target = m
                    break
        elif which == "non_base" and base:
            for m in re.finditer(r"<Image>\s*<GUID>(\{[^}]+\})</GUID>\s*<Type>(Compressed|Plain)</Type>", t):
                if m.group(1) != base[0]:
                    target = m
                    break
        if target is None:
            return t
        a, e = target.span(2)
        return t[:a] + typ + t[e:]

    _rewrite_text(world, p, edit)


def _f_hdd_no_descriptor(world, b, spec, _):
    world.fs.files.pop(_find(world, "DiskDescriptor.xml"))


def _hv_file(world):
    return world.fs.files[[p for p in world.fs.files if p.lower().endswith((".vmcx", ".vmrs"))][0]]


def _f_hyperv_objtable_self(world, b, spec, _):
    import struct

    f = _hv_file(world)
    # turn the first entry into an object-table entry that points at the object table itself
    _set_bytes(f, 0x2000 + 8, struct.pack("<BIQIB", 1, 0, 0x2000, 0x1000, 1))


def _f_hyperv_objtable_loop2(world, b, spec, _):
    import struct

    f = _hv_file(world)
    n = struct.unpack("<I", f.pread(0x2004, 4))[0]
    # a second object table (copy of the first) whose first entry points back at the first
    tbl = bytearray(f.pread(0x2000, 8 + 18 * n))
    far = (f.length + 0xFFF) & ~0xFFF
    tbl[8:26] = struct.pack("<BIQIB", 1, 0, 0x2000, 0x1000, 1)
    f.write(far, bytes(tbl))
    _set_bytes(f, 0x2000 + 8, struct.pack("<BIQIB", 1, 0, far, 0x1000, 1))


def _f_hyperv_objtable_dupchain(world, b, spec, depth):
    """No cycle: object table i references table i+1 twice. Loading a table once per path costs 2**depth loads."""
    import struct

    f = _hv_file(world)
    base = (f.length + 0xFFF) & ~0xFFF
    stride = 0x100
    for i in range(depth):
        off = base + i * stride
        nxt = base + (i + 1) * stride
        ents = b""
        if i + 1 < depth:
            ents = struct.pack("<BIQIB", 1, 0, nxt, stride, 1) * 2
        f.write(off, struct.pack("<II", 0x01110001, len(ents) // 18) + ents)
    f.set_length(base + depth * stride)
    _set_bytes(f, 0x2000 + 8, struct.pack("<BIQIB", 1, 0, base, stride, 1))
    _set_bytes(f, 0x2000 + 8 + 18, struct.pack("<BIQIB", 1, 0, base, stride, 1))


def _f_hyperv_entry_size_zero_walk(world, b, spec, _):
    import struct

    f = _hv_file(world)
    n = struct.unpack("<I", f.pread(0x2004, 4))[0]
    for i in range(n):
        typ, _, off, size, alloc = struct.unpack("<BIQIB", f.pread(0x2008 + 18 * i, 18))
        if typ == 2 and alloc:
            _set_bytes(f, off + 10 + 2, struct.pack("<I", 1))  # first entry size 1: next entry overlaps this one
            return


def _f_hyperv_active_version(world, b, spec, ver):
    import struct

    f = _hv_file(world)
    s1 = struct.unpack("<H", f.pread(8, 2))[0]
    s2 = struct.unpack("<H", f.pread(0x1008, 2))[0]
    off = 0 if s1 > s2 else 0x1000
    _set_bytes(f, off + 10, struct.pack("<I", ver))


def _f_hyperv_active_sig(world, b, spec, _):
    import struct

    f = _hv_file(world)
    s1 = struct.unpack("<H", f.pread(8, 2))[0]
    s2 = struct.unpack("<H", f.pread(0x1008, 2))[0]
    off = 0 if s1 > s2 else 0x1000
    f.add_flip(off, "xor", 0x01)


def _f_vhdx_parent_is_self(world, b, spec, _):
    """The file the top image names as its parent holds the top image itself: its parent locator, resolved from where it now
    lies, names that same file again - a parent chain without end."""
    def idx(p):
        n = p.rsplit("/", 1)[1]
        return 0 if n == "base.vhdx" else int(n.split(" ")[1].split(".")[0])

    imgs = sorted((p for p in world.fs.files if p.endswith((".avhdx", ".vhdx"))), key=idx)
    if len(imgs) < 2:
        return "skip"
    top, parent = imgs[-1], imgs[-2]
    world.fs.add(parent, world.fs.files[top])


def _f_vmdk_parent_is_self(world, b, spec, _):
    top = sorted(p for p in world.fs.files if p.rsplit("/", 1)[1].startswith("L") and p.endswith(".vmdk") and "-x" not in p)[-1]
    f = world.fs.files[top]
    raw = f.pread(0, min(f.length, 1 << 16))
    name = top.rsplit("/", 1)[1].encode()
    i = raw.find(b"parentFileNameHint=\"")
    if i >= 0:
        j = i + len(b"parentFileNameHint=\"")
        k = raw.index(b"\"", j)
        _set_bytes(f, j, name[: k - j].ljust(k - j, b" ") if len(name) > k - j else name + b"\"" + b" " * (k - j - len(name)))


def _deflate(data: bytes, container: str, wbits: int = 15) -> bytes:
    co = _zlib.compressobj(9, _zlib.DEFLATED, {"raw": -wbits, "zlib": wbits, "gzip": 16 + wbits}[container])
    return co.compress(data) + co.flush()


def _f_vmdk_inflate_bomb(world, b, spec, ratio):
    import struct

    p = b.paths[0]
    f = world.fs.files[p]
    for path, fld in b.fields:
        if fld.name == "vmdk.grain0.cmp_size":
            grain_bytes = spec["cfg"]["grain"] * 512
            ratio, container = ratio if isinstance(ratio, list) else (ratio, "zlib")
            bomb = _deflate(bytes(grain_bytes * ratio), container)
            gsec = (fld.off - 8) // 512
            # the bomb replaces grain 0's record; it may spill over following records, which is fine for this fault
            f.write(gsec * 512, struct.pack("<QI", 0, len(bomb)) + bomb)
            return


def _f_bomb_plus_field(world, b, spec, arg):
    bomb, bomb_arg, field_fault = arg
    r = globals()["_f_" + bomb](world, b, spec, bomb_arg)
    if r == "skip":
        return r
    apply_fault(world, b, spec, field_fault, "pre")


def _world_state(world, b):
    return (tuple(sorted((p, f.content_hash(), len(f._ov)) for p, f in world.fs.files.items())), tuple(sorted(world.fs.faults.items())),
            getattr(b, "open_kwargs_drop_backing", False), id(b.open))


def _f_qcow2_inflate_bomb(world, b, spec, ratio):
    """The first mapped L2 entry of the active table becomes a compressed-cluster descriptor whose deflate stream expands to
    `ratio` clusters; the stream is appended to the image file. The workload gets a request covering exactly that cluster."""
    import re

    p = b.paths[0]
    f = world.fs.files[p]
    cfg = spec["cfg"]
    if cfg.get("data_file"):
        return "skip"  # compressed clusters and an external data file exclude each other
    cb = cfg["cluster_bits"]
    cs = 1 << cb
    ratio, container = ratio if isinstance(ratio, list) else (ratio, "raw")
    bomb = _deflate(bytes(cs * ratio), container, 12)
    cands = []
    for path, fld in b.fields:
        m = re.match(r"qcow2\.l2_0_(\d+)\[(\d+)\]$", fld.name)
        if m and path == p:
            cands.append((int(m.group(1)), int(m.group(2)), fld))
    if not cands:
        return "skip"
    t, i, fld = min(cands, key=lambda c: (c[0], c[1]))
    x = 62 - (cb - 8)
    coff = (f.length + 511) & ~511
    f.write(coff, bomb[: 2 * cs])
    nsec = min((1 << (cb - 8)) - 1, (min(len(bomb), 2 * cs) + 511) // 512)
    _set_bytes(f, fld.off, ((1 << 62) | (nsec << x) | coff).to_bytes(8, "big"))
    if cfg.get("extl2"):
        _set_bytes(f, fld.off + 8, bytes(8))
    per_table = cs // (16 if cfg.get("extl2") else 8)
    guest = (t * per_table + i) * cs
    b.extra_reqs = [[guest, cs], [guest + cs - 512, 512], [guest, 512]]
    b.request_bytes += 2 * cs


def _f_qcow2_l1_to_l1(world, b, spec, _):
    f = world.fs.files[b.paths[0]]
    l1off = int.from_bytes(f.pread(40, 8), "big")
    _set_bytes(f, l1off, (l1off | (1 << 63)).to_bytes(8, "big"))


def _f_qcow2_incompat(world, b, spec, bit):
    f = world.fs.files[b.paths[0]]
    cur = int.from_bytes(f.pread(72, 8), "big")
    if cur & bit:
        return "skip"
    _set_bytes(f, 72, (cur | bit).to_bytes(8, "big"))


def _f_qcow2_comptype(world, b, spec, v):
    f = world.fs.files[b.paths[0]]
    _set_bytes(f, 104, bytes([v]))
    cur = int.from_bytes(f.pread(72, 8), "big")
    _set_bytes(f, 72, (cur | 8).to_bytes(8, "big"))  # the compression-type incompatible bit goes with a non-zero type


def _f_qcow2_comptype_nobit(world, b, spec, v):
    f = world.fs.files[b.paths[0]]
    _set_bytes(f, 104, bytes([v]))
    cur = int.from_bytes(f.pread(72, 8), "big")
    _set_bytes(f, 72, (cur & ~8).to_bytes(8, "big"))


def _f_qcow2_extl2_small(world, b, spec, _):
    f = world.fs.files[b.paths[0]]
    cur = int.from_bytes(f.pread(72, 8), "big")
    _set_bytes(f, 72, (cur | 16).to_bytes(8, "big"))
    _set_bytes(f, 20, (13).to_bytes(4, "big"))  # 8 KiB clusters -> 256-byte sub-clusters


def _f_qcow2_backing_no_arg(world, b, spec, _):
    f = world.fs.files[b.paths[0]]
    if int.from_bytes(f.pread(8, 8), "big"):
        b.open_kwargs_drop_backing = True
        return
    cs = 1 << spec["cfg"]["cluster_bits"]
    name = b"base.img"
    off = cs - 16
    f.write(off, name)
    _set_bytes(f, 8, off.to_bytes(8, "big"))
    _set_bytes(f, 16, len(name).to_bytes(4, "big"))


def _f_qcow2_backing_bad_name(world, b, spec, _):
    """The image names a backing file, the caller supplies none - and the stored name is not valid UTF-8 (overwritten bytes).
    Needing a backing file does not depend on being able to print its name."""
    _f_qcow2_backing_no_arg(world, b, spec, 0)
    b.open_kwargs_drop_backing = True
    f = world.fs.files[b.paths[0]]
    off = int.from_bytes(f.pread(8, 8), "big")
    f.write(off, b"\xff\xfe")


def _vhdx_top(world):
    return world.fs.files[sorted(p for p in world.fs.files if p.endswith(".avhdx"))[-1]]


def _f_vhdx_drop_region(world, b, spec, which):
    import struct

    f = _vhdx_top(world)
    want = bytes.fromhex("6677c22d23f600429d64115e9bfd4a08") if which == "bat" else bytes.fromhex("06a27c8b90479a4bb8fe575f050f886e")
    for base in (192 << 10, 256 << 10):
        cnt = struct.unpack("<I", f.pread(base + 8, 4))[0]
        for j in range(cnt):
            e = base + 16 + 32 * j
            if f.pread(e, 16) == want:
                f.add_flip(e + 3, "xor", 0x55)  # the entry now names an unknown region


def _f_vhdx_drop_item(world, b, spec, item):
    import struct

    ids = {"file_parameters": "3767a1ca36fa434db3b633f0aa44e76b", "size": "2442a52f1bcd7648b2115dbed83bf4b8",
           "lss": "1dbf41816fa90947ba47f233a8faab5f", "disk_id": "ab12cabee6b22345 93efc309e000c746".replace(" ", "")}
    f = _vhdx_top(world)
    want = bytes.fromhex(ids[item])
    raw = f.pread(192 << 10, 16 + 32 * 4)
    cnt = struct.unpack("<I", raw[8:12])[0]
    for j in range(cnt):
        g, fo, ln, req = struct.unpack("<16sQII", raw[16 + 32 * j : 48 + 32 * j])
        if g == bytes.fromhex("06a27c8b90479a4bb8fe575f050f886e"):
            mc = struct.unpack("<H", f.pread(fo + 10, 2))[0]
            for k in range(mc):
                e = fo + 32 + 32 * k
                if f.pread(e, 16) == want:
                    f.add_flip(e + 5, "xor", 0x55)
                    # an unknown item: clear IsRequired so that only its absence matters
                    _set_bytes(f, e + 24, struct.pack("<I", 0))


def _f_vhdx_unknown_required_item(world, b, spec, is_user):
    """Append an item with an unknown GUID and IsRequired=1 (system or user namespace) to the metadata table."""
    import struct

    f = _vhdx_top(world)
    raw = f.pread(192 << 10, 16 + 32 * 4)
    cnt = struct.unpack("<I", raw[8:12])[0]
    for j in range(cnt):
        g, fo, ln, req = struct.unpack("<16sQII", raw[16 + 32 * j : 48 + 32 * j])
        if g == bytes.fromhex("06a27c8b90479a4bb8fe575f050f886e"):
            mc = struct.unpack("<H", f.pread(fo + 10, 2))[0]
            e = fo + 32 + 32 * mc
            f.write(e, struct.pack("<16sIIII", bytes.fromhex("0123456789abcdef0123456789abcdef"), (64 << 10) + 0x800, 8, 0b100 | (1 if is_user else 0), 0))
            f.write(fo + (64 << 10) + 0x800, b"required")
            _set_bytes(f, fo + 10, struct.pack("<H", mc + 1))
            return
    return "skip"


def _f_vhdx_active_header_sig(world, b, spec, _):
    import struct

    f = _vhdx_top(world)
    s1 = struct.unpack("<Q", f.pread((64 << 10) + 8, 8))[0]
    s2 = struct.unpack("<Q", f.pread((128 << 10) + 8, 8))[0]
    off = (64 << 10) if s1 > s2 else (128 << 10)
    f.add_flip(off, "xor", 0x20)


def _f_envelope_drop_attr(world, b, spec, name):
    f = world.fs.files[b.paths[0]]
    raw = f.pread(512, 2048)
    i = raw.find(name.encode())
    if i >= 0:
        f.add_flip(512 + i + 7, "xor", 0x01)  # the attribute is now called something else


def _f_envelope_cipher(world, b, spec, cipher):
    f = world.fs.files[b.paths[0]]
    raw = f.pread(512, 2048)
    i = raw.find(b"AES-256-GCM")
    if i >= 0:
        _set_bytes(f, 512 + i, cipher.encode()[:11].ljust(11, b"X"))


def _f_keystore_mode(world, b, spec, mode):
    import re

    _rewrite_text(world, b.paths[0], lambda t: re.sub(r'mode = "[^"]*"', f'mode = "{mode}"', t))


def _f_vmx_locator(world, b, spec, kind):
    _rewrite_text(world, b.paths[0], lambda t: t.replace("pair/(phrase/", f"pair/({kind}/"))


def _f_vmx_identifier(world, b, spec, ident):
    _rewrite_text(world, b.paths[0], lambda t: t.replace("vmware:key/", ident + "/"))


def _f_sparse_extent_magic(world, b, spec, _):
    for x in spec["ecase"]["exts"]:
        if x["kind"] in ("hosted", "cowd", "sesparse"):
            p = _find(world, "/" + x["name"])
            world.fs.files[p].add_flip(0, "xor", 0x40)
            return
    return "skip"


# ---------------------------------------------------------------------------------------------------------
# meters
# ---------------------------------------------------------------------------------------------------------


class _ZlibProxy:
    """Stands in for the `zlib` name inside the repo's qcow2/vmdk modules and records inflate output sizes."""

    def __init__(self, sink):
        self._sink = sink

    def decompress(self, data, *a, **kw):
        out = _zlib.decompress(data, *a, **kw)
        self._sink.append(len(out))
        return out

    def decompressobj(self, *a, **kw):
        obj = _zlib.decompressobj(*a, **kw)
        sink = self._sink

        class D:
            def decompress(self_, data, *a2, **kw2):
                out = obj.decompress(data, *a2, **kw2)
                sink.append(len(out))
                return out

            def __getattr__(self_, n):
                return getattr(obj, n)

        return D()

    def __getattr__(self, n):
        return getattr(_zlib, n)


def _patch_zlib(sink):
    import dissect.hypervisor.disk.qcow2 as q
    import dissect.hypervisor.disk.vmdk as v

    old = (getattr(q, "zlib", None), getattr(v, "zlib", None))
    proxy = _ZlibProxy(sink)
    if old[0] is not None:
        q.zlib = proxy
    if old[1] is not None:
        v.zlib = proxy
    return old


def _unpatch_zlib(old):
    import dissect.hypervisor.disk.qcow2 as q
    import dissect.hypervisor.disk.vmdk as v

    if old[0] is not None:
        q.zlib = old[0]
    if old[1] is not None:
        v.zlib = old[1]


# ---------------------------------------------------------------------------------------------------------
# run
# ---------------------------------------------------------------------------------------------------------

_warmed = False


def _warm():
    """cstruct compiles struct parsers lazily: parse one valid input of every kind so that step counts are stable."""
    global _warmed
    if _warmed:
        return
    _warmed = True
    from hvsim.engines import monitor

    monitor.warm()
    for spec in bases.all_specs(1, "quick"):
        w = World("warm")
        try:
            with w.fs:
                b = bases.build(spec, w)
                o = b.open()
                b.use(o)
        except Exception:
            pass


def warm_process():
    _warm()


def run_case(case: dict) -> RunResult:
    _warm()
    world = World("f")
    log = world.log
    prop = case["prop"]
    c12 = prop == "C12"
    spec, fault = case["spec"], case["fault"]
    set_stream_align(8192)
    base_name = spec.get("fmt") or spec.get("name") or spec.get("ccase", {}).get("kind") or spec["type"]
    fdesc = fault[2] if fault[0] == "field" else fault[1] if fault[0] in ("crafted", "gate") else fault[0]
    sig = {"base": spec["type"] + ":" + str(base_name), "fault": str(fdesc)}
    viol = None
    inflates = []
    steps = 0
    peak = 0
    outcome = "?"
    memerr = None

    def v(klass, detail):
        return Violation(prop, klass, log.seq, detail, dict(sig, klass=klass))

    with world.fs, monitored():
        b = bases.build(spec, world)
        skip = False
        for ph in ("pre",):
            r = None
            if fault[0] in ("crafted", "gate"):
                fn = globals()["_f_" + fault[1]]
                st0 = _world_state(world, b)
                r = fn(world, b, spec, fault[2])
                if r != "skip" and _world_state(world, b) == st0:
                    # a crafted input that left the world as it was tests nothing: never count it as a fired fault
                    raise HarnessError(f"crafted fault {fault[1:3]} had no effect on base {spec.get('fmt') or spec.get('name') or spec['type']}")
                world.faults_fired[fault[1]] += 0 if r == "skip" else 1
            else:
                apply_fault(world, b, spec, fault, "pre")
            if r == "skip":
                skip = True
        log.add("injector", fault[0], fault[1:4], None)
        stored = sum(f.stored_bytes() for f in world.fs.files.values())
        old = _patch_zlib(inflates)
        if case["trace_alloc"]:
            tracemalloc.start()
        led0 = world.total_ledger()["ret"]

        def allowance():
            delivered = world.total_ledger()["ret"] - led0
            return A_STEPS + B_STEPS * (min(delivered, stored) + b.request_bytes)

        obj = None
        opened = False
        try:
            try:
                with metered(A_STEPS, "line", allowance) as m:
                    try:
                        if getattr(b, "open_kwargs_drop_backing", False):
                            from dissect.hypervisor.disk.qcow2 import QCow2

                            obj = QCow2(world.handle(b.paths[0]))
                        else:
                            obj = b.open()
                        opened = True
                        outcome = "opened"
                        if fault[0] == "field" and fault[8] == "late":
                            apply_fault(world, b, spec, fault, "late")
                        if not c12:
                            b.use(obj)
                            outcome = "served"
                    except BudgetExceeded:
                        raise
                    except Exception as e:
                        outcome = ("refused:" if not opened else "raised:") + type(e).__name__
                        if isinstance(e, MemoryError):
                            memerr = "storage" if str(e).startswith("simulated storage") else "library"
                steps = m.steps
            except BudgetExceeded as e:
                steps = m.steps
                outcome = "budget"
                delivered = world.total_ledger()["ret"] - led0
                viol = v("steps", f"no result within {steps} line events (allowed {A_STEPS}+{B_STEPS}*{min(delivered, stored) + b.request_bytes}); "
                                  f"{'open' if not opened else 'read'} after fault {fault[:8]}: {e}")
        finally:
            _unpatch_zlib(old)
            if case["trace_alloc"]:
                peak = tracemalloc.get_traced_memory()[1]
                tracemalloc.stop()
        log.add("reader", "open+use", None, outcome)
        delivered = world.total_ledger()["ret"] - led0
        if viol is None and not c12:
            allowed_alloc = C_ALLOC + D_ALLOC * (min(delivered, stored) + b.request_bytes)
            if peak > allowed_alloc:
                viol = v("alloc", f"peak traced allocation {peak} bytes > allowed {allowed_alloc} after fault {fault[:8]}")
            unit = max(b.unit_bytes, 1)
            big = [n for n in inflates if n > unit]
            if viol is None and memerr == "library":
                # the address space of a worker is capped (orchestrator: RLIMIT_AS); a MemoryError that does not come from the
                # simulated storage means the reader asked the allocator for gigabytes on behalf of a small input
                viol = v("alloc-attempt", f"the reader attempted an allocation the capped address space refused (MemoryError) after fault {fault[:8]}")
            if viol is None and big:
                viol = v("inflate", f"inflate produced {max(big)} bytes for an allocation unit of {unit} bytes after fault {fault[:8]}")
        if viol is None and c12 and not skip:
            if opened:
                viol = v("accepted", f"open succeeded although {fault[1:4] if fault[0] == 'gate' else fault[2:8]} is outside what the parser supports")
    res = RunResult(log, viol)
    key = (sig["base"], fault[0], str(fdesc)[:40], outcome.split(":")[0])
    res.keys.add(key)
    res.nontrivial_keys.add(key)
    res.faults.update(world.faults_fired)
    res.probes["outcome." + outcome.split(":")[0]] = 1
    res.probes["base." + sig["base"]] = 1
    res.extra["line_steps"] = steps
    res.extra["max_steps_seen"] = 0
    res.extra["inflate_calls"] = len(inflates)
    if skip:
        res.probes["gate.skipped_not_applicable"] = 1
    if memerr:
        res.probes["memoryerror.from_" + memerr] = 1
    return res


def preload():
    from hvsim.engines import monitor

    monitor.preload()


SHRINK_LISTS = []
