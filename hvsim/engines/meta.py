"""C14 - exposed image metadata and parent references equal what the file stores.

The writer stubs record every metadata value they store; after the real reader opened the image the invariant
I_open compares each exposed attribute with the stored value.  Worlds are metadata-rich: QCOW2 extensions of every
length / padding class and snapshot tables with ids, names and extra data of every size; VHDX parent locators with
UTF-16 keys/values in any order and the two-header update protocol cut between the header writes (the stale slot
carries older values); VMDK embedded/standalone descriptors; Parallels descriptors; VHD / VDI / HDS headers."""
from __future__ import annotations

import struct
import traceback
import uuid

from hvsim import gen
from hvsim.core import BudgetExceeded, RunResult, Violation, metered, rng_for, set_stream_align
from hvsim.model import Layer, View
from hvsim.simfs import SimFile, monitored
from hvsim.world import World
from hvsim.writers import hds as WH
from hvsim.writers import qcow2 as WQ
from hvsim.writers import vdi as WD
from hvsim.writers import vhd as WVH
from hvsim.writers import vhdx as WX
from hvsim.writers import vmdk as WV

STEP_LIMIT = 600_000
KINDS = ["qcow2", "qcow2", "vhdx", "vhdx", "vmdk", "vmdk", "vhd", "vdi", "hdd"]
WORDS = ["disk", "Ünïcode", "with space", "日本語", "a", "x" * 40, "snap-01", "über disk", "päth/sub", "Q", "emoji📀",
         "clone #3 of base", "line\u2028sep", "nel\u0085x", "ff\x0cvt\x0bx", "semi;colon:and,comma", "percent%41"]


def _word(rng, maxlen=60):
    w = rng.choice(WORDS) + (str(rng.randrange(1000)) if rng.random() < 0.5 else "")
    return w[:maxlen]


def gen_case(seed: int, prop: str, tier: str) -> dict:
    rng = rng_for(seed, "meta")
    kind = rng.choice(KINDS)
    case = {"engine": "meta", "prop": prop, "seed": seed, "kind": kind}
    if kind == "qcow2":
        cfg = WQ.gen_cfg(rng, tier, backing="no")
        cfg["cluster_bits"] = rng.choice([12, 14, 16]) if not cfg["extl2"] else rng.choice([14, 16])
        cfg["nsectors"] = ((1 << cfg["cluster_bits"]) // 512) * rng.choice([1, 3, 9]) + rng.randrange(8)
        cs = 1 << cfg["cluster_bits"]
        exts = []
        budget = cs - 400
        for _ in range(rng.choice([0, 1, 2, 3, 5])):
            ln = rng.choice([0, 1, 2, 7, 8, 9, 15, 16, 17, 255, 256, 1023, rng.randrange(0, 1024)])
            if ln + 16 > budget:
                continue
            budget -= ln + 16
            exts.append(["unknown", rng.getrandbits(31) | 0x40000000, ln])
        if rng.random() < 0.4 and budget > 200:
            exts.append(["features", rng.randint(1, 3)])
        rng.shuffle(exts)
        cfg["exts"] = exts
        if rng.random() < 0.6:
            name = _word(rng) + rng.choice([".img", ".qcow2", "", ".RAW"])
            cfg["backing"] = {"nsectors": cfg["nsectors"], "name": name, "format": rng.choice([None, "raw", "qcow2", "Raw", "vmdk"])}
        nsnap = rng.choice([0, 0, 1, 2, 3, 5, 8])
        snaps = []
        for i in range(nsnap):
            snaps.append({"id": str(rng.choice([i + 1, 10 ** rng.randrange(1, 9)])), "name": _word(rng, rng.choice([1, 5, 13, 60])),
                          "extra_size": rng.choice([0, 16, 16, 24, 24, 32, 40]) if cfg["version"] == 3 else rng.choice([0, 16]),
                          "vm_state_size": rng.choice([0, 0, 4096, 1 << 20]), "vm_clock": rng.getrandbits(50),
                          "date_sec": rng.getrandbits(31), "date_nsec": rng.randrange(10**9), "icount": rng.getrandbits(40),
                          "vm_state_size_large": rng.choice([0, 1 << 33])})
        case.update(cfg=cfg, snaps=snaps)
    elif kind == "vhdx":
        cfg = WX.gen_cfg(rng, tier)
        cfg["fixed"] = False
        if cfg["nsectors"] * 512 > (1 << 32):
            cfg["nsectors"] = (cfg["block"] // 512) * 2 + 8
        diff = rng.random() < 0.6
        entries = None
        if diff:
            n = rng.choice([2, 3, 4, 5, 6])
            keys = ["relative_path", "parent_linkage", "volume_path", "absolute_win32_path", "parent_linkage2"]
            entries = [["relative_path", ".\\parent.vhdx"]]
            for k in rng.sample(keys[1:], min(n - 1, 4)):
                entries.append([k, rng.choice(["{%s}" % uuid.UUID(int=rng.getrandbits(128)), "C:\\dir\\" + _word(rng) + ".vhdx",
                                               "\\\\?\\Volume{%s}\\x.vhdx" % uuid.UUID(int=rng.getrandbits(128)), _word(rng)])])
            if rng.random() < 0.3:
                entries.append([_word(rng, 20) + "_key", _word(rng)])
            rng.shuffle(entries)
        case.update(cfg=cfg, diff=diff, entries=entries, open=rng.choice(["path", "handle"]))
    elif kind == "vmdk":
        k = rng.choice(["hosted", "hosted", "stream", "standalone", "lines"])
        cfg = WV.gen_cfg(rng, tier, kind="hosted" if k in ("standalone", "lines") else k)
        if k == "lines":
            # extent lines of every access mode and type the format knows, with their optional columns
            xl = []
            for _ in range(rng.choice([1, 2, 4, 7])):
                typ = rng.choice(["SPARSE", "ZERO", "FLAT", "VMFS", "VMFSSPARSE", "VMFSRDM", "VMFSRAW", "SESPARSE"])
                e = {"access": rng.choice(["RW", "RW", "RDONLY", "NOACCESS"]), "sectors": rng.choice([0, 1, 2048, 4192256, 1 << 33, rng.getrandbits(40)]),
                     "type": typ, "filename": None, "start": None, "uuid": None, "dev": None}
                if typ != "ZERO" or rng.random() < 0.2:
                    e["filename"] = rng.choice(["disk-s001.vmdk", "disk-flat.vmdk", "my disk-000001-delta.vmdk", "dísk-sesparse.vmdk", "/vmfs/devices/disks/naa.6000",
                                                "a b  c.vmdk", "x" * 120 + ".vmdk"])
                    if rng.random() < 0.5:
                        e["start"] = rng.choice([0, 0, 63, 2048, 1 << 32])
                        if rng.random() < 0.4:
                            e["uuid"] = rng.choice(["partitionUUID", "6000c29b-1a2b", "vml.0200"])
                            if rng.random() < 0.5:
                                e["dev"] = rng.choice(["naa.600508b1001c", "mpx.vmhba1:C0:T0:L0"])
                xl.append(e)
            case["xlines"] = xl
        if cfg["nsectors"] > 100000:
            cfg["nsectors"] = cfg["grain"] * rng.randint(1, 300)
        ddb = {}
        for key in rng.sample(["ddb.virtualHWVersion", "ddb.adapterType", "ddb.geometry.cylinders", "ddb.geometry.heads",
                               "ddb.geometry.sectors", "ddb.uuid", "ddb.longContentID", "ddb.toolsVersion", "ddb.comment",
                               "ddb.thinProvisioned"], rng.randint(0, 7)):
            ddb[key] = rng.choice([str(rng.randrange(100000)), "lsilogic", "60 00 C2 9c 3a 7f-aa bb", _word(rng), "a=b", "x" * 100])
        if rng.random() < 0.3:
            ddb["ddb.comment"] = rng.choice(["clone #3 of base", "a # b", "x\u2028y", "tab\tinside"])
        case.update(cfg=cfg, vk=k, ddb=ddb, cid="%08x" % rng.getrandbits(32), ctype=rng.choice(["monolithicSparse", "streamOptimized", "twoGbMaxExtentSparse", "vmfs"]),
                    style=rng.getrandbits(2), names=[_word(rng, 30).replace("/", "_") + "-s%03d.vmdk" % (j + 1) for j in range(rng.choice([1, 2, 3]))],
                    open=rng.choice(["path", "handle"]))
    elif kind == "vhd":
        case.update(cfg=WVH.gen_cfg(rng, tier))
    elif kind == "vdi":
        case.update(cfg=WD.gen_cfg(rng, tier))
    else:
        nst = rng.choice([1, 2, 3])
        nshot = rng.choice([1, 2, 3, 4])
        cl = rng.choice([8, 16, 2048])
        cfgs = []
        for j in range(nst):
            c = WH.gen_cfg(rng, tier)
            c.update(cluster=cl, nsectors=cl * rng.choice([1, 2, 5]))
            cfgs.append(c)
        guids = [WH.guid_str(rng.getrandbits(64)) for _ in range(nshot)]
        case.update(cfgs=cfgs, guids=guids, topmode=rng.choice(["none", "present"]), types=[rng.choice(["Compressed", "Compressed", "Plain"]) for _ in range(nshot)],
                    fname="".join(ch for ch in _word(rng, 20).replace("/", "_") if ord(ch) >= 32), shuffle=rng.getrandbits(8))
    if rng.random() < 0.15:
        case["eio_open"] = [rng.choice([1, 2, 3, 4, 5, 7, 10, 15]), rng.choice(["eio", "eio", "eio_partial"])]
    return case


def _check(name, got, want, out):
    if got != want:
        out.append(f"{name}: exposed {got!r:.120}, stored {want!r:.120}")


def run_case(case: dict) -> RunResult:
    world = World("m")
    log = world.log
    prop = case["prop"]
    set_stream_align(8192)
    kind = case["kind"]
    sig = {"kind": kind}
    viol = None
    bad: list[str] = []
    keys = set()
    probes = {}
    d = world.root + "/vm"

    def v(klass, detail):
        return Violation(prop, klass, log.seq, detail, dict(sig, klass=klass))

    armed = case.get("eio_open")
    if armed:
        # fault-injecting configuration: every handle created during this run fails its k-th read call once (a transient error
        # while the image is opened or its metadata is looked at). Open / inspection may fail; whatever is exposed without an
        # exception must still equal what the file stores.
        real_on = world.on_handle

        def arming(h, spath, _k=armed[0], _kind=armed[1]):
            real_on(h, spath)
            h.eio_at, h.fault_kind = _k, _kind

        world.on_handle = arming
    with world.fs, monitored():
        try:
            with metered(STEP_LIMIT, "loop", world.step_allowance(STEP_LIMIT, 2.0, 1 << 22)):
                if kind == "qcow2":
                    cfg = case["cfg"]
                    lay = Layer(10, cfg["nsectors"], WQ.unit_sectors(cfg))
                    lay.write(0, 1, 1)
                    roots = [WQ.Root(lay, View([lay]))]
                    for i, s in enumerate(case["snaps"]):
                        sl = Layer(20 + i, cfg["nsectors"], WQ.unit_sectors(cfg))
                        sl.write(0, 1, 100 + i)
                        roots.append(WQ.Root(sl, View([sl]), s))
                    img = WQ.render(cfg, roots)
                    for nm, f in img.files.items():
                        world.fs.add(d + "/" + nm, f)
                    from dissect.hypervisor.disk import qcow2 as Q

                    kw = {}
                    if cfg["data_file"]:
                        kw["data_file"] = world.handle(d + "/disk.data")
                    if cfg["backing"]:
                        kw["backing_file"] = Q.ALLOW_NO_BACKING_FILE
                    q = Q.QCow2(world.handle(d + "/disk.qcow2"), **kw)
                    m = img.meta
                    _check("size", q.size, m["size"], bad)
                    _check("cluster_size", q.cluster_size, m["cluster_size"], bad)
                    _check("backing file name", q.auto_backing_file, m["backing_file"], bad)
                    _check("backing format (case-insensitive)", (q.backing_format or "").lower() or None, (m["backing_format"] or "").lower() or None, bad)
                    _check("data file name", q.image_data_file, m["data_file"], bad)
                    _check("feature table", q.feature_table, m["feature_table"], bad)
                    _check("unknown extensions", [(e.magic, bytes(dd)) for e, dd in q.unknown_extensions], [(t, dd) for t, dd in m["unknown_extensions"]], bad)
                    snaps = q.snapshots
                    _check("snapshot count", len(snaps), len(m["snapshots"]), bad)
                    for i, (s, w) in enumerate(zip(snaps, m["snapshots"])):
                        _check(f"snapshot[{i}].id", s.id_str, w["id"], bad)
                        _check(f"snapshot[{i}].name", s.name, w["name"], bad)
                        _check(f"snapshot[{i}].l1_size", s.header.l1_size, w["l1_size"], bad)
                        _check(f"snapshot[{i}].l1_table_offset", s.header.l1_table_offset, w["l1_offset"], bad)
                        _check(f"snapshot[{i}].vm_clock", s.header.vm_clock_nsec, w["vm_clock"], bad)
                        _check(f"snapshot[{i}].date_sec", s.header.date_sec, w["date_sec"], bad)
                        _check(f"snapshot[{i}].vm_state_size", s.header.vm_state_size, w["vm_state_size"], bad)
                        if w["extra_size"] >= 16:
                            _check(f"snapshot[{i}].disk_size", s.extra.disk_size, w["disk_size"], bad)
                    keys.add(("qcow2", len(m["snapshots"]), len(m["unknown_extensions"]), bool(m["backing_file"]), cfg["version"]))
                    for t, dd in m["unknown_extensions"]:
                        probes["meta.qcow2_ext_len_mod8_%d" % (len(dd) % 8)] = 1
                    for w in m["snapshots"]:
                        probes["meta.qcow2_snap_extra_%d" % w["extra_size"]] = 1
                        probes["meta.qcow2_snap_entry_mod8_%d" % ((40 + w["extra_size"] + len(w["id"].encode()) + len(w["name"].encode())) % 8)] = 1
                elif kind == "vhdx":
                    cfg = case["cfg"]
                    lay = Layer(10, cfg["nsectors"], cfg["block"] // 512)
                    pe = None
                    if case["diff"]:
                        pcfg = dict(cfg, id_seed=cfg["id_seed"] ^ 0x5A5A)
                        pl = Layer(9, cfg["nsectors"], cfg["block"] // 512)
                        pimg = WX.render(pcfg, pl, View([pl]), name="parent.vhdx")
                        world.fs.add(d + "/parent.vhdx", pimg.files["parent.vhdx"])
                        pe = [tuple(e) for e in case["entries"]]
                    img = WX.render(cfg, lay, View([lay]), parent_entries=pe, name="disk.vhdx")
                    world.fs.add(d + "/disk.vhdx", img.files["disk.vhdx"])
                    from pathlib import Path

                    from dissect.hypervisor.disk.vhdx import VHDX

                    x = VHDX(Path(d + "/disk.vhdx")) if case["open"] == "path" else VHDX(world.handle(d + "/disk.vhdx"))
                    m = img.meta
                    _check("size", x.size, m["size"], bad)
                    _check("block_size", x.block_size, m["block_size"], bad)
                    _check("sector_size", x.sector_size, m["sector_size"], bad)
                    _check("id", x.id, m["id"], bad)
                    _check("has_parent", bool(x.has_parent), m["has_parent"], bad)
                    _check("active header sequence number", x.header.sequence_number, m["sequence_number"], bad)
                    base_seq, newer = cfg["seq"]
                    slot = 0 if newer == 0 else 1
                    want_guid = WX._guid(__import__("random").Random(cfg["id_seed"] + slot).random()).bytes_le
                    _check("active header file_write_guid", bytes(x.header.file_write_guid), want_guid, bad)
                    if case["diff"]:
                        _check("parent locator entries", dict(x.parent_locator.entries), m["parent_entries"], bad)
                        _check("parent locator type", x.parent_locator.type, WX.G_PARENT_TYPE, bad)
                        probes["meta.vhdx_locator_entries_%d" % len(m["parent_entries"])] = 1
                    keys.add(("vhdx", case["diff"], cfg["lss"], newer, len(case["entries"] or [])))
                    probes["meta.vhdx_newer_header_slot_%d" % slot] = 1
                elif kind == "vmdk":
                    _vmdk(case, world, d, bad, keys, probes)
                elif kind == "vhd":
                    cfg = case["cfg"]
                    lay = Layer(10, cfg["nsectors"], cfg["nsectors"] if cfg["fixed"] else cfg["block"] // 512)
                    img = WVH.render(cfg, lay, View([lay]))
                    world.fs.add(d + "/disk.vhd", img.files["disk.vhd"])
                    from dissect.hypervisor.disk.vhd import VHD

                    h = VHD(world.handle(d + "/disk.vhd"))
                    m = img.meta
                    _check("size", h.size, m["size"], bad)
                    _check("unique_id", bytes(h.disk.footer.unique_id), m["uid"], bad)
                    _check("disk_type", h.disk.footer.disk_type, m["disk_type"], bad)
                    _check("original_size", h.disk.footer.original_size, m["original_size"], bad)
                    if not cfg["fixed"]:
                        _check("block_size", h.disk.header.block_size, m["block_size"], bad)
                        _check("max_table_entries", h.disk.header.max_table_entries, m["max_table_entries"], bad)
                        _check("table_offset", h.disk.header.table_offset, m["table_offset"], bad)
                    keys.add(("vhd", cfg["fixed"], cfg["legacy"]))
                elif kind == "vdi":
                    cfg = case["cfg"]
                    lay = Layer(10, cfg["nsectors"], cfg["block"] // 512)
                    img = WD.render(cfg, lay, View([lay]))
                    world.fs.add(d + "/disk.vdi", img.files["disk.vdi"])
                    from dissect.hypervisor.disk.vdi import VDI

                    h = VDI(world.handle(d + "/disk.vdi"))
                    m = img.meta
                    _check("size", h.size, m["size"], bad)
                    _check("block_size", h.block_size, m["block_size"], bad)
                    _check("sector_size", h.sector_size, m["sector_size"], bad)
                    _check("data_offset", h.data_offset, m["data_offset"], bad)
                    _check("UUIDVDI", bytes(h.header.UUIDVDI), m["uuid"], bad)
                    _check("UUIDSNAP", bytes(h.header.UUIDSNAP), m["uuid_snap"], bad)
                    _check("BlocksInHDD", h.header.BlocksInHDD, m["blocks"], bad)
                    keys.add(("vdi", cfg["block"]))
                else:
                    _hdd(case, world, d, bad, keys, probes)
            log.add("acquirer", "open+inspect", kind, "ok" if not bad else bad[0][:80])
        except BudgetExceeded:
            viol = v("budget", "open did not finish within the step budget")
        except Exception as e:
            tb = traceback.extract_tb(e.__traceback__)[-1]
            log.add("acquirer", "open+inspect", kind, "raised:" + type(e).__name__)
            if armed and world.io_faults_fired():
                bad.clear()
                probes["meta.failed_on_injected_io_fault"] = 1
            else:
                viol = v("raised:" + type(e).__name__, f"open/inspect raised {type(e).__name__}: {e} at {tb.filename.rsplit('/', 1)[-1]}:{tb.lineno}"[:300])
    if viol is None and bad:
        field = bad[0].split(":")[0].split("[")[0]
        viol = v("meta:" + field, "; ".join(bad[:3]))
    if armed:
        world.on_handle = real_on
        probes["meta.config_io_fault_at_open"] = 1
    res = RunResult(log, viol)
    res.keys = keys
    res.nontrivial_keys = set(keys)
    res.probes.update(probes)
    res.faults.update(world.faults_fired)
    res.probes["meta.kind_" + kind] = 1
    return res


def _vmdk(case, world, d, bad, keys, probes):
    from pathlib import Path

    from dissect.hypervisor.disk.vmdk import VMDK

    cfg = case["cfg"]
    vk = case["vk"]
    cap = cfg["nsectors"]
    if vk == "lines":
        from dissect.hypervisor.disk.vmdk import DiskDescriptor

        lines, want = [], []
        for e in case["xlines"]:
            ln = f'{e["access"]} {e["sectors"]} {e["type"]}'
            if e["filename"] is not None:
                ln += f' "{e["filename"]}"'
            for kx in ("start", "uuid", "dev"):
                if e[kx] is not None:
                    ln += f" {e[kx]}"
            lines.append(ln)
            want.append((e["access"], e["sectors"], e["type"], e["filename"], e["start"], e["uuid"], e["dev"]))
        text = WV.descriptor_text(case["cid"], "ffffffff", case["ctype"], lines, None, case["ddb"], case["style"])
        f = SimFile()
        f.write(0, text.encode())
        world.fs.add(d + "/disk.vmdk", f)
        desc = DiskDescriptor.parse(Path(d + "/disk.vmdk").read_text())
        got = [(e.access_mode, e.sectors, e.type, e.filename, e.start_sector, e.partition_uuid, e.device_identifier) for e in desc.extents]
        _check("extent lines", got, want, bad)
        _check("CID", desc.attr.get("CID"), case["cid"], bad)
        _check("createType", desc.attr.get("createType"), case["ctype"], bad)
        _check("ddb", dict(desc.ddb), dict(case["ddb"]), bad)
        _check("descriptor sectors", desc.sectors, sum(e["sectors"] for e in case["xlines"]), bad)
        keys.add(("vmdk", vk, len(want), tuple(sorted({e["type"] for e in case["xlines"]}))[:3]))
        probes["meta.vmdk_lines"] = 1
        for e in case["xlines"]:
            probes["meta.vmdk_extent_type_" + e["type"]] = 1
        return
    if vk == "standalone":
        # a descriptor file naming 1-3 hosted sparse extents
        names = case["names"]
        n = len(names)
        per = max(cfg["grain"], (cap // n) // cfg["grain"] * cfg["grain"])
        sizes = [per] * (n - 1) + [max(cfg["grain"], cap - per * (n - 1))]
        lines = []
        for nm, sz in zip(names, sizes):
            c = dict(cfg, nsectors=sz, embed_desc=False)
            lay = Layer(10, sz, cfg["grain"])
            img = WV.render(c, lay, View([lay]), name=nm)
            world.fs.add(d + "/" + nm, img.files[nm])
            lines.append(f'RW {sz} SPARSE "{nm}"')
        text = WV.descriptor_text(case["cid"], "ffffffff", case["ctype"], lines, None, case["ddb"], case["style"])
        f = SimFile()
        f.write(0, text.encode())
        world.fs.add(d + "/disk.vmdk", f)
        vm = VMDK(Path(d + "/disk.vmdk")) if case["open"] == "path" else VMDK(world.handle(d + "/disk.vmdk"))
        desc = vm.descriptor
        want_ext = [("RW", sz, "SPARSE", nm) for nm, sz in zip(names, sizes)]
        _check("size", vm.size, sum(sizes) * 512, bad)
    else:
        c = dict(cfg, embed_desc=True, cid=case["cid"])
        lay = Layer(10, cap, cfg["grain"])
        # the embedded descriptor is produced by the writer; give it our ddb by patching descriptor_text's default
        text = WV.descriptor_text(case["cid"], "ffffffff", "streamOptimized" if vk == "stream" else "monolithicSparse",
                                  [f'RW {cap} SPARSE "disk.vmdk"'], None, case["ddb"], case["style"])
        c["desc_sectors"] = max(c.get("desc_sectors", 20), (len(text.encode()) + 511) // 512)
        img = WV.render(c, lay, View([lay]), name="disk.vmdk")
        f = img.files["disk.vmdk"]
        raw = text.encode()
        desc_off = struct.unpack("<Q", f.pread(28, 8))[0]  # wherever the writer put the embedded descriptor
        f.write(desc_off * 512, raw + bytes(c["desc_sectors"] * 512 - len(raw)))
        world.fs.add(d + "/disk.vmdk", f)
        vm = VMDK(Path(d + "/disk.vmdk")) if case["open"] == "path" else VMDK(world.handle(d + "/disk.vmdk"))
        desc = vm.disks[0].descriptor
        want_ext = [("RW", cap, "SPARSE", "disk.vmdk")]
        _check("size", vm.size, cap * 512, bad)
    if desc is None:
        bad.append("descriptor: exposed None, stored a descriptor")
        return
    _check("CID", desc.attr.get("CID"), case["cid"], bad)
    _check("parentCID", desc.attr.get("parentCID"), "ffffffff", bad)
    want_ct = case["ctype"] if vk == "standalone" else ("streamOptimized" if vk == "stream" else "monolithicSparse")
    _check("createType", desc.attr.get("createType"), want_ct, bad)
    _check("version", desc.attr.get("version"), "1", bad)
    _check("ddb", dict(desc.ddb), dict(case["ddb"]), bad)
    got_ext = [(e.access_mode, e.sectors, e.type, e.filename) for e in desc.extents]
    _check("extents", got_ext, want_ext, bad)
    _check("descriptor sectors", desc.sectors, sum(e[1] for e in want_ext), bad)
    keys.add(("vmdk", vk, len(want_ext), len(case["ddb"]), case["style"]))
    probes["meta.vmdk_" + vk] = 1


def _hdd(case, world, d, bad, keys, probes):
    from pathlib import Path

    from dissect.hypervisor.disk.hdd import HDD, HDS

    cfgs, guids = case["cfgs"], case["guids"]
    storages = []
    acc = 0
    first_hds = None
    for j, c in enumerate(cfgs):
        images = []
        for i, g in enumerate(guids):
            fname = "%s.hdd.%d.%s.hds" % (case["fname"], j, g)
            # file names are element text: leading and trailing blanks belong to the name (a fraction of the images gets them)
            edge = (case["shuffle"] + 3 * j + i) % 7
            fname = " " + fname if edge == 0 else fname + " " if edge == 1 else "\u00a0" + fname if edge == 2 else fname
            lay = Layer(10 + i, c["nsectors"], c["cluster"])
            if case["types"][i] == "Plain":
                img = WH.render_plain(lay, View([lay]), fname)
            else:
                img = WH.render(c, lay, View([lay]), name=fname)
                if first_hds is None:
                    first_hds = (d + "/x.hdd/" + fname, img.meta)
            world.fs.add(d + "/x.hdd/" + fname, img.files[fname])
            images.append((g, case["types"][i], fname))
        storages.append({"start": acc, "end": acc + c["nsectors"], "blocksize": c["cluster"], "images": images})
        acc += c["nsectors"]
    shots = [(guids[i], guids[i - 1] if i else WH.NULL_GUID) for i in range(len(guids))]
    order = list(range(len(storages)))
    __import__("random").Random(case["shuffle"]).shuffle(order)
    top = guids[-1] if case["topmode"] == "present" else None
    xml = WH.descriptor_xml([storages[i] for i in order], shots, top_guid=top, disk_sectors=acc)
    f = SimFile()
    f.write(0, xml.encode())
    world.fs.add(d + "/x.hdd/DiskDescriptor.xml", f)
    h = HDD(Path(d + "/x.hdd"))
    desc = h.descriptor
    got = [(s.start, s.end, [(str(i.guid), i.type, i.file) for i in s.images]) for s in desc.storage_data.storages]
    want = [(storages[i]["start"], storages[i]["end"], [(g.strip("{}"), t, fn) for g, t, fn in storages[i]["images"]]) for i in order]
    _check("storages", got, want, bad)
    _check("shots", [(str(s.guid), str(s.parent)) for s in desc.snapshots.shots], [(a.strip("{}"), b.strip("{}")) for a, b in shots], bad)
    tg = desc.snapshots.top_guid
    _check("top_guid", str(tg) if tg is not None else None, top.strip("{}") if top else None, bad)
    if first_hds:
        s = HDS(world.handle(first_hds[0]))
        m = first_hds[1]
        _check("hds size", s.size, m["size"], bad)
        _check("hds cluster_size", s.cluster_size, m["cluster_size"], bad)
        _check("hds data_offset", s.data_offset, m["data_offset"], bad)
        _check("hds in_use", s.in_use, m["in_use"], bad)
    keys.add(("hdd", len(cfgs), len(guids), case["topmode"]))


SHRINK_LISTS = ["snaps"]


def simplify(case):
    if case["kind"] == "qcow2":
        cfg = case["cfg"]
        for i in range(len(cfg["exts"])):
            yield dict(case, cfg=dict(cfg, exts=cfg["exts"][:i] + cfg["exts"][i + 1 :]))
        if cfg["backing"]:
            yield dict(case, cfg=dict(cfg, backing=None))
    if case["kind"] == "vmdk" and case["ddb"]:
        for k in list(case["ddb"]):
            dd = dict(case["ddb"])
            dd.pop(k)
            yield dict(case, ddb=dd)
    if case["kind"] == "vhdx" and case.get("entries") and len(case["entries"]) > 1:
        for i in range(len(case["entries"])):
            if case["entries"][i][0] != "relative_path":
                yield dict(case, entries=case["entries"][:i] + case["entries"][i + 1 :])
