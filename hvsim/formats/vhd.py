"""Adapter: VHD writer stub <-> real reader (dissect.hypervisor.disk.vhd.VHD)."""
from hvsim.writers import vhd as W

has_read_sectors = True


def gen_cfg(rng, tier, big=False):
    return W.gen_cfg(rng, tier, big)


def sector_size(cfg):
    return 512


def unit_sectors(cfg):
    return cfg["nsectors"] if cfg["fixed"] else cfg["block"] // 512


def caps(cfg):
    if cfg["fixed"]:
        return {"zero_units": False, "compress": False, "dealloc": False}
    return W.CAPS


def has_below(cfg):
    return False


def hot_units(cfg):
    return []


def below_layers(cfg):
    return [], None


def render(cfg, layers, view):
    return W.render(cfg, layers[0], view)


def open_modes(cfg):
    return ["handle"]


def open(world, main, img, mode):
    from dissect.hypervisor.disk.vhd import VHD

    return VHD(world.handle(main))


def read_sectors(stream, s, c):
    return stream.disk.read_sectors(s, c)


def features(cfg):
    return ("fixed" if cfg["fixed"] else "dynamic",) + (("legacy511",) if cfg["legacy"] else ())


def geom_class(cfg):
    b = cfg["block"]
    return ("b<4k" if b < 4096 else "b<8k" if b < 8192 else "b=8k" if b == 8192 else "b>8k",
            "tail" if cfg["nsectors"] % (b // 512) else "even", cfg["alloc"], "batlast" if cfg["bat_after_data"] else "batfirst")


def probes(case, layers, view, img):
    cfg = case["cfg"]
    p = {}
    if cfg["legacy"]:
        p["vhd.footer_511"] = 1
    if cfg["fixed"]:
        p["vhd.fixed"] = 1
        return p
    if cfg["nsectors"] % (cfg["block"] // 512):
        p["vhd.size_not_multiple_of_block"] = 1
    bat = [x for x in img.info["bat"] if x != 0xFFFFFFFF]
    if bat != sorted(bat):
        p["vhd.blocks_out_of_order"] = 1
    if cfg["block"] < 4096:
        p["vhd.block_lt_4k"] = 1
    return p


def req_meta_bytes(cfg, img, off, ln):
    if cfg["fixed"]:
        return 0
    return 8 * (ln // cfg["block"] + 2) + 2048


def meta_model(cfg):
    return (cfg['block'], 8, 2048)
    # (guest bytes covered by one second-level table, bytes of one such table, bytes of the top-level table read lazily)
