"""Adapter: VHDX writer stub <-> real reader (dissect.hypervisor.disk.vhdx.VHDX), non-differencing."""
from hvsim.writers import vhdx as W

has_read_sectors = True


def gen_cfg(rng, tier, big=False):
    return W.gen_cfg(rng, tier, big)


def sector_size(cfg):
    return cfg["lss"]


def unit_sectors(cfg):
    return cfg["block"] // 512


def caps(cfg):
    if cfg["fixed"]:
        return {"zero_units": False, "compress": False, "dealloc": False}
    return W.CAPS


def has_below(cfg):
    return False


def hot_units(cfg):
    r = W.ratio_of(cfg)
    return [0, 1, r - 1, r, r + 1, 2 * r - 1, 2 * r, 2 * r + 1]


def below_layers(cfg):
    return [], None


def render(cfg, layers, view):
    return W.render(cfg, layers[0], view)


def open_modes(cfg):
    return ["handle", "path", "anon"]


def open(world, main, img, mode):
    from pathlib import Path

    from dissect.hypervisor.disk.vhdx import VHDX

    if mode == "path":
        return VHDX(Path(main))
    return VHDX(world.handle(main, named=(mode == "handle")))


def read_sectors(stream, s, c):
    return stream.read_sectors(s, c)


def features(cfg):
    return ("fixed" if cfg["fixed"] else "dynamic", "lss%d" % cfg["lss"]) + (("userdata",) if cfg["unknown_item"] else ())


def geom_class(cfg):
    nb = (cfg["nsectors"] * 512 + cfg["block"] - 1) // cfg["block"]
    return (cfg["block"] >> 20, "interleaved" if nb > W.ratio_of(cfg) else "flat", "tail" if (cfg["nsectors"] * 512) % cfg["block"] else "even", cfg["alloc"])


def probes(case, layers, view, img):
    cfg = case["cfg"]
    p = {}
    nb = layers[0].nunits
    if nb > W.ratio_of(cfg):
        p["vhdx.sb_entries_interleaved"] = 1
    if cfg["lss"] == 4096:
        p["vhdx.sector_4096"] = 1
    offs = [e >> 20 for e in img.info["bat"] if e & 7 == 6]
    if offs != sorted(offs):
        p["vhdx.blocks_out_of_order"] = 1
    bs = cfg["block"]
    size = view.n * 512
    for op in case["cops"]:
        off, ln = (op[1], op[2]) if op[0] == "r" else (op[1] * cfg["lss"], op[2] * cfg["lss"])
        if ln and off % bs and (min(off + ln, size) - 1) // bs > off // bs:
            p["vhdx.read_starts_midblock_crosses_block"] = 1
    for st in set(img.info["states"].values()) | {img.info["default_state"]}:
        p["vhdx.state_%d" % st] = 1
    if cfg["unknown_item"]:
        p["vhdx.unknown_user_metadata_item"] = 1
    return p


def req_meta_bytes(cfg, img, off, ln):
    return 16 * (ln // cfg["block"] + 2) + 64


def meta_model(cfg):
    return (cfg['block'], 16, 64)
    # (guest bytes covered by one second-level table, bytes of one such table, bytes of the top-level table read lazily)
