"""Adapter: VMDK extent writer stubs <-> real reader (dissect.hypervisor.disk.vmdk.VMDK)."""
from hvsim.writers import vmdk as W

has_read_sectors = True
BIG_RATE = 0.04


def gen_cfg(rng, tier, big=False):
    return W.gen_cfg(rng, tier, big)


def sector_size(cfg):
    return 512


def unit_sectors(cfg):
    return cfg["grain"]


def caps(cfg):
    return W.caps(cfg)


def has_below(cfg):
    return False


def hot_units(cfg):
    g = cfg["gtes"]
    return [0, g - 1, g, g + 1, 2 * g, 128 * g - 1, 128 * g, 129 * g]


def spray(cfg):
    return (cfg["gtes"], 160) if cfg["kind"] != "flat" else (0, 0)


def below_layers(cfg):
    return [], None


def render(cfg, layers, view):
    return W.render(cfg, layers[0], view)


def open_modes(cfg):
    return ["handle", "handle", "anon", "list", "path"]


def open(world, main, img, mode):
    from pathlib import Path

    from dissect.hypervisor.disk.vmdk import VMDK

    if mode == "path":
        return VMDK(Path(main))
    if mode == "list":
        return VMDK([world.handle(main)])
    return VMDK(world.handle(main, named=(mode == "handle")))


def read_sectors(stream, s, c):
    return stream.read_sectors(s, c)


def features(cfg):
    k = cfg["kind"]
    f = (k,)
    if k in ("hosted", "stream"):
        if cfg["zero_gte"]:
            f += ("zerogte",)
        if cfg.get("rgd"):
            f += ("rgd",)
        if not cfg["embed_desc"]:
            f += ("nodesc",)
        if cfg.get("compressed_grains"):
            f += ("packed",)
        if cfg.get("stream_pad", "tight") != "tight":
            f += ("pad_" + cfg["stream_pad"],)
    return f


def geom_class(cfg):
    n, g = cfg["nsectors"], cfg["grain"]
    ngt = (n + g * cfg["gtes"] - 1) // (g * cfg["gtes"])
    return (g, cfg["gtes"], "gd>128" if ngt > 128 else "gd<=128", "mod16" if n % 16 else "m16", "tailgrain" if n % g else "even",
            ">2^32" if n > (1 << 32) else "", cfg["alloc"])


def probes(case, layers, view, img):
    cfg = case["cfg"]
    p = {"vmdk.kind_" + cfg["kind"]: 1}
    n = cfg["nsectors"]
    if cfg["kind"] == "stream":
        p["vmdk.gd_in_footer"] = 1
    if img.info.get("ngt", 0) > 128:
        p["vmdk.gd_entries_gt_128"] = 1
    if n % 16:
        p["vmdk.capacity_not_multiple_of_16_sectors"] = 1
    if n > (1 << 32):
        p["vmdk.capacity_gt_2^32_sectors"] = 1
    g = cfg["grain"]
    gt = img.info.get("gtes") or {}
    if cfg["kind"] == "hosted":
        for u, v in gt.items():
            if v > 1 and gt.get(u + 1, 0) == v + g:
                p["vmdk.adjacent_grains_merged"] = 1
            if v > 1 and gt.get(u + 1, 0) > 1 and gt.get(u + 1) != v + g:
                p["vmdk.adjacent_grains_not_contiguous"] = 1
        if 1 in gt.values():
            p["vmdk.zero_grain"] = 1
    return p


def req_meta_bytes(cfg, img, off, ln):
    if cfg["kind"] == "flat":
        return 0
    cover = cfg["grain"] * cfg["gtes"] * 512
    tables = ln // cover + 2
    esz = 8 if cfg["kind"] == "sesparse" else 4
    extra = 0
    if cfg["kind"] == "stream":  # compressed grains are read whole (plus their marker sector)
        extra = (ln // (cfg["grain"] * 512) + 2) * (cfg["grain"] * 512 + 1024)
    return tables * cfg["gtes"] * esz + extra


def meta_model(cfg):
    if cfg['kind'] == 'flat':
        return (1 << 62, 0, 0)
    esz = 8 if cfg['kind'] == 'sesparse' else 4
    return (cfg['grain'] * cfg['gtes'] * 512, cfg['gtes'] * esz, 0)
    # (guest bytes covered by one second-level table, bytes of one such table, bytes of the top-level table read lazily)
