"""Adapter: QCOW2 writer stub <-> real reader (dissect.hypervisor.disk.qcow2.QCow2)."""
from hvsim import gen
from hvsim.model import Layer
from hvsim.simfs import SimFile
from hvsim.writers import qcow2 as W
from hvsim.writers.common import put_view

has_read_sectors = False
BIG_RATE = 0.03


def gen_cfg(rng, tier, big=False):
    cfg = W.gen_cfg(rng, tier, big)
    if cfg["backing"]:
        bn = cfg["backing"]["nsectors"]
        unit = W.unit_sectors(cfg)
        cfg["backing"]["ops"] = gen.gen_layer_ops(rng, bn, unit, {"zero_units": False}, rng.choice([1, 2, 4, 8]), 1000, False)
    return cfg


def sector_size(cfg):
    return 512


def unit_sectors(cfg):
    return W.unit_sectors(cfg)


def caps(cfg):
    return W.caps(cfg)


def has_below(cfg):
    return bool(cfg["backing"])


def l2_size(cfg):
    return (1 << cfg["cluster_bits"]) // (16 if cfg["extl2"] else 8)


def hot_units(cfg):
    n = l2_size(cfg)
    return [0, 1, n - 1, n, n + 1, 2 * n - 1, 2 * n, 128 * n - 1, 128 * n, 129 * n]


def spray(cfg):
    """(stride in units, count): one write per L2 table, enough tables to overflow the 128-entry L2 cache."""
    return l2_size(cfg), 160


def below_layers(cfg):
    if not cfg["backing"]:
        return [], None
    b = cfg["backing"]
    L = Layer(5, b["nsectors"], max(1, b["nsectors"]))
    gen.apply_ops(L, b["ops"], {"zero_units": False}, False)
    return [L], None


def render(cfg, layers, view):
    img = W.render(cfg, [W.Root(layers[0], view)])
    if cfg["backing"]:
        f = SimFile("base.raw")
        from hvsim.model import View

        put_view(f, 0, View(layers[1:]), 0, layers[1].n)
        f.set_length(layers[1].n * 512)
        img.files["base.raw"] = f
    return img


def open_modes(cfg):
    return ["handle"]


def open(world, main, img, mode):
    from dissect.hypervisor.disk.qcow2 import QCow2

    d = main.rsplit("/", 1)[0]
    kw = {}
    if "disk.data" in img.files:
        kw["data_file"] = world.handle(d + "/disk.data")
    if "base.raw" in img.files:
        kw["backing_file"] = world.handle(d + "/base.raw")
    return QCow2(world.handle(main), **kw)


def read_sectors(stream, s, c):
    raise NotImplementedError


def features(cfg):
    f = ("v%d" % cfg["version"],)
    for k in ("extl2", "data_file", "compress", "dirty"):
        if cfg[k]:
            f += (k,)
    if cfg["backing"]:
        f += ("backing",)
    if cfg["exts"]:
        f += ("exts",)
    return f


def geom_class(cfg):
    ncl = (cfg["nsectors"] * 512 + (1 << cfg["cluster_bits"]) - 1) >> cfg["cluster_bits"]
    nl2 = (ncl + l2_size(cfg) - 1) // l2_size(cfg)
    return (cfg["cluster_bits"], "l2>128" if nl2 > 128 else "l2>1" if nl2 > 1 else "l2=1", cfg["alloc"],
            "far" if (cfg["data_far"] or cfg["l2_far"] or cfg["comp_far"]) else "near", cfg["header_length"])


def probes(case, layers, view, img):
    cfg = case["cfg"]
    p = {}
    cs = 1 << cfg["cluster_bits"]
    n = l2_size(cfg)
    if img.info["n_l2"] > 128:
        p["qcow2.l2_tables_gt_128"] = 1
    if img.info.get("tight_eof"):
        p["qcow2.file_ends_inside_last_compressed_sector"] = 1
    if cfg["version"] == 2:
        p["qcow2.v2_header_without_v3_fields"] = 1
        if cfg["exts"] or cfg["backing"]:
            p["qcow2.v2_with_extensions_or_backing"] = 1
    if cfg["extl2"]:
        p["qcow2.extended_l2"] = 1
    if cfg["data_file"]:
        p["qcow2.external_data_file"] = 1
    if img.info["comp"]:
        p["qcow2.compressed_clusters"] = 1
        if any(o >= (1 << 32) for o in img.info["comp_offsets"]):
            p["qcow2.compressed_host_offset_ge_4GiB"] = 1
        if any(o % 512 for o in img.info["comp_offsets"]):
            p["qcow2.compressed_offset_unaligned"] = 1
    if any(o >= (1 << 32) for o in img.info["data_pos"]):
        p["qcow2.data_host_offset_ge_4GiB"] = 1
    if any(o >= (1 << 40) for o in img.info["data_pos"]):
        p["qcow2.data_host_offset_ge_1TiB"] = 1
    if cfg["backing"]:
        p["qcow2.backing"] = 1
        if cfg["backing"]["nsectors"] < cfg["nsectors"]:
            p["qcow2.backing_shorter_than_image"] = 1
    size = view.n * 512
    for op in case["cops"]:
        off, ln = op[1], op[2]
        end = min(off + ln, size)
        if ln and end > off and (end - 1) // (cs * n) > off // (cs * n):
            p["qcow2.run_crosses_l2_boundary"] = 1
    st = {layers[0].ustate(u) for u in layers[0].touch} | set(layers[0].flags.values())
    for s in st:
        p["qcow2.unit_" + s] = 1
    return p


def req_meta_bytes(cfg, img, off, ln):
    cs = 1 << cfg["cluster_bits"]
    n = l2_size(cfg)
    ncl = (cfg["nsectors"] * 512 + cs - 1) // cs
    l1 = ((ncl + n - 1) // n + cfg["l1_extra"]) * 8
    tables = ln // (cs * n) + 2
    comp = (ln // cs + 2) * (cs + 1024) if cfg["compress"] else 0
    return l1 + tables * cs + comp


def meta_model(cfg):
    cs = 1 << cfg['cluster_bits']
    n = l2_size(cfg)
    ncl = (cfg['nsectors'] * 512 + cs - 1) // cs
    return (cs * n, cs, ((ncl + n - 1) // n + cfg['l1_extra']) * 8)
    # (guest bytes covered by one second-level table, bytes of one such table, bytes of the top-level table read lazily)
