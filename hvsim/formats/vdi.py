"""Adapter: VDI writer stub <-> real reader (dissect.hypervisor.disk.vdi.VDI)."""
from hvsim.writers import vdi as W

has_read_sectors = False


def gen_cfg(rng, tier, big=False):
    return W.gen_cfg(rng, tier, big)


def sector_size(cfg):
    return 512


def unit_sectors(cfg):
    return cfg["block"] // 512


def caps(cfg):
    return W.CAPS


def has_below(cfg):
    return False


def hot_units(cfg):
    return []


def below_layers(cfg):
    return [], None


def render(cfg, layers, view):
    return W.render(cfg, layers[0], view)


def open_modes(cfg):
    return ["handle"]


def open(world, main, img, mode):
    from dissect.hypervisor.disk.vdi import VDI

    return VDI(world.handle(main))


def read_sectors(stream, s, c):
    raise NotImplementedError


def features(cfg):
    return ("vdi",)


def geom_class(cfg):
    b = cfg["block"]
    return ("b<8k" if b < 8192 else "b=8k" if b == 8192 else "b>8k", "tail" if cfg["nsectors"] % (b // 512) else "even", cfg["alloc"])


def probes(case, layers, view, img):
    p = {}
    m = img.info["map"]
    alloc = [x for x in m if x >= 0]
    if alloc != sorted(alloc):
        p["vdi.map_permuted"] = 1
    unit = case["cfg"]["block"]
    for op in case["cops"]:
        if op[0] == "r" and op[2] > 0:
            first, last = op[1] // unit, (min(op[1] + op[2], view.n * 512) - 1) // unit
            if last > first:
                p["vdi.multi_block_request"] = 1
                if alloc != sorted(alloc):
                    p["vdi.multi_block_request_permuted"] = 1
    if -2 in m:
        p["vdi.zero_block"] = 1
    if -1 in m:
        p["vdi.unallocated_block"] = 1
    return p


def req_meta_bytes(cfg, img, off, ln):
    return 0


def meta_model(cfg):
    return (1 << 62, 0, 0)
    # (guest bytes covered by one second-level table, bytes of one such table, bytes of the top-level table read lazily)
