"""Adapter: Parallels HDS/HDD writer stub <-> real readers (hdd.HDS, hdd.HDD)."""
from hvsim.simfs import SimFile
from hvsim.writers import hds as W

has_read_sectors = False


def gen_cfg(rng, tier, big=False):
    cfg = W.gen_cfg(rng, tier, big)
    cfg["plain"] = (not big) and rng.random() < 0.08
    return cfg


def sector_size(cfg):
    return 512


def unit_sectors(cfg):
    return cfg["cluster"]


def caps(cfg):
    return W.CAPS


def has_below(cfg):
    return False


def hot_units(cfg):
    return []


def below_layers(cfg):
    return [], None


def render(cfg, layers, view):
    name = "disk.hdd.0." + W.DEFAULT_TOP + ".hds"
    if cfg.get("plain"):
        img = W.render_plain(layers[0], view, name)
        typ = "Plain"
    else:
        img = W.render(cfg, layers[0], view, name=name)
        typ = "Compressed"
    xml = W.descriptor_xml(
        [{"start": 0, "end": layers[0].n, "blocksize": cfg["cluster"], "images": [(W.DEFAULT_TOP, typ, name)]}],
        [(W.DEFAULT_TOP, W.NULL_GUID)], disk_sectors=layers[0].n)
    d = SimFile("DiskDescriptor.xml")
    d.write(0, xml.encode())
    img.files["DiskDescriptor.xml"] = d
    img.files["disk.hdd"] = SimFile("disk.hdd")
    img.info["typ"] = typ
    return img


def open_modes(cfg):
    return ["hdd"] if cfg.get("plain") else ["handle", "handle", "hdd", "hddfile"]


def open(world, main, img, mode):
    from pathlib import Path

    from dissect.hypervisor.disk.hdd import HDD, HDS

    if mode == "handle":
        return HDS(world.handle(main))
    d = main.rsplit("/", 1)[0]
    if mode == "hddfile":
        return HDD(Path(d + "/disk.hdd")).open()
    return HDD(Path(d)).open()


def read_sectors(stream, s, c):
    raise NotImplementedError


def features(cfg):
    return ("plain",) if cfg.get("plain") else ("v%d" % cfg["ver"],)


def geom_class(cfg):
    c = cfg["cluster"] * 512
    return ("c<8k" if c < 8192 else "c=8k" if c == 8192 else "c>8k", "tail" if cfg["nsectors"] % cfg["cluster"] else "even", cfg["alloc"])


def probes(case, layers, view, img):
    p = {}
    cfg = case["cfg"]
    if cfg.get("plain"):
        return {"hds.plain": 1}
    bat = img.info["bat"]
    mult = 512 if cfg["ver"] == 1 else cfg["cluster"] * 512
    cl = cfg["cluster"] * 512
    run = 0
    for i, e in enumerate(bat):
        if e == 0:
            run += cl
        else:
            if run and e * mult == run:
                p["hds.alloc_offset_equals_preceding_sparse_run"] = 1
            run = 0
    p["hds.v%d_units" % cfg["ver"]] = 1
    return p


def req_meta_bytes(cfg, img, off, ln):
    ncl = (cfg["nsectors"] + cfg["cluster"] - 1) // cfg["cluster"]
    return 4 * ncl + 64


def meta_model(cfg):
    ncl = (cfg['nsectors'] + cfg['cluster'] - 1) // cfg['cluster']
    return (1 << 62, 0, 4 * ncl + 64)
    # (guest bytes covered by one second-level table, bytes of one such table, bytes of the top-level table read lazily)
