"""The repo's real sample images, loaded into simulated storage (real-writer output as worlds)."""
from __future__ import annotations

import gzip
import os

from hvsim.simfs import SimFile

DATA = os.path.join(os.environ.get("VERIF_REPO", "/repo"), "tests", "data")
_cache: dict[str, bytes] = {}


def raw(name: str) -> bytes:
    if name not in _cache:
        p = os.path.join(DATA, name)
        if name.endswith(".gz"):
            _cache[name] = gzip.open(p).read()
        else:
            _cache[name] = open(p, "rb").read()
    return _cache[name]


def simfile(name: str, as_name: str | None = None) -> SimFile:
    f = SimFile(as_name or name)
    f.write(0, raw(name))
    return f


# name -> (format, {relative path in the world: fixture file}, main)
DISK_FIXTURES = {
    "fixed.vhd": ("vhd", {"fixed.vhd": "fixed.vhd.gz"}, "fixed.vhd"),
    "dynamic.vhd": ("vhd", {"dynamic.vhd": "dynamic.vhd.gz"}, "dynamic.vhd"),
    "fixed.vhdx": ("vhdx", {"fixed.vhdx": "fixed.vhdx.gz"}, "fixed.vhdx"),
    "dynamic.vhdx": ("vhdx", {"dynamic.vhdx": "dynamic.vhdx.gz"}, "dynamic.vhdx"),
    "sesparse.vmdk": ("vmdk", {"sesparse.vmdk": "sesparse.vmdk.gz"}, "sesparse.vmdk"),
    "expanding.hdd": ("hdd", None, "expanding.hdd"),
    "plain.hdd": ("hdd", None, "plain.hdd"),
    "split.hdd": ("hdd", None, "split.hdd"),
}


# its parent (another .avhdx) is not in the repo: usable only for "missing parent must be refused" and fault worlds
ORPHANS = {"differencing.avhdx": ("vhdx", {"differencing.avhdx": "differencing.avhdx.gz"}, "differencing.avhdx")}


def install(world, fx: str, directory: str = "fx") -> str:
    """Place a disk fixture into the world's namespace; returns the absolute path of its main file / directory."""
    fmt, files, main = (DISK_FIXTURES.get(fx) or ORPHANS[fx])
    base = world.root + "/" + directory
    if fmt == "hdd":
        d = os.path.join(DATA, fx)
        for fn in sorted(os.listdir(d)):
            rel = fx + "/" + fn
            if fn.endswith(".gz"):
                world.fs.add(base + "/" + fx + "/" + fn[:-3], simfile(rel))
            else:
                world.fs.add(base + "/" + fx + "/" + fn, simfile(rel))
        return base + "/" + fx
    for rel, src in files.items():
        world.fs.add(base + "/" + rel, simfile(src))
    return base + "/" + main


def open_disk(world, fx: str, path: str):
    """Open a fixture with the real reader."""
    from pathlib import Path

    fmt = (DISK_FIXTURES.get(fx) or ORPHANS[fx])[0]
    if fmt == "vhd":
        from dissect.hypervisor.disk.vhd import VHD

        return VHD(world.handle(path))
    if fmt == "vhdx":
        from dissect.hypervisor.disk.vhdx import VHDX

        return VHDX(Path(path))
    if fmt == "vmdk":
        from dissect.hypervisor.disk.vmdk import VMDK

        return VMDK(world.handle(path))
    from dissect.hypervisor.disk.hdd import HDD

    return HDD(Path(path)).open()
