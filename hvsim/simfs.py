"""Simulated storage and namespace: SimFile (sparse, 2^63-addressable, generator-backed extents),
SimHandle (what the reader receives; logs, counts, injects faults, flags mutating calls),
SimFS (mount table + class-level patches of pathlib.Path.open/stat and builtins.open),
Monitor (mutation ledger + sys.addaudithook).
"""
from __future__ import annotations

import builtins
import errno
import io
import os
import pathlib
import stat as stat_mod
import sys
import tarfile
from bisect import bisect_left, bisect_right

from hvsim.model import pattern


# ---------------------------------------------------------------------------------------------------------
# extent sources
# ---------------------------------------------------------------------------------------------------------


class BytesSrc:
    __slots__ = ("data",)

    def __init__(self, data: bytes):
        self.data = bytes(data)

    def gen(self, rel: int, n: int) -> bytes:
        return self.data[rel : rel + n]


class BlobSrc(BytesSrc):
    """Literal bytes that are an opaque payload (a deflate stream, ciphertext), not a structure with fields: a reader cannot
    tell a shortened delivery of such bytes from a complete one, so the 'short read of metadata' fault leaves them alone."""

    __slots__ = ()


class PatSrc:
    """Content-function extent: byte `rel` belongs to sector lba0 + rel // 512 of (layer, wid)."""

    __slots__ = ("layer", "wid", "lba0")

    def __init__(self, layer: int, wid: int, lba0: int):
        self.layer = layer
        self.wid = wid
        self.lba0 = lba0

    def gen(self, rel: int, n: int) -> bytes:
        s0, skip = divmod(rel, 512)
        s1 = (rel + n + 511) // 512
        return pattern(self.layer, self.wid, self.lba0 + s0, self.lba0 + s1)[skip : skip + n]


class SimFile:
    """Sparse file: sorted non-overlapping extents (start, end, src); holes read as zeros."""

    def __init__(self, name: str = "", length: int = 0):
        self.name = name
        self.length = length
        self._starts: list[int] = []
        self._ext: list[tuple[int, int, object]] = []
        self.overlay: list[tuple[int, int, int]] = []  # (activation_seq, offset, xor/flip as (kind,value))
        self._ov: dict[int, list] = {}
        self.trunc_at: int | None = None  # fault: visible length
        self.ledger = {"calls": 0, "req": 0, "ret": 0, "data": 0, "raw": 0}
        self._blob_served = 0
        self._raw_served = 0  # bytes of literal extents (headers, tables, compressed blobs) handed out by pread
        self._pat_served = 0  # bytes of guest-data extents (content function) handed out by pread, any caller
        self.mutations = 0
        self._version = 0  # bumped by every content/length change

    # -- writer side -------------------------------------------------------------------------------
    def _put(self, start: int, end: int, src) -> None:
        if end <= start:
            return
        self._version += 1
        starts, ext = self._starts, self._ext
        i = bisect_right(starts, start) - 1
        lo = i if (i >= 0 and ext[i][1] > start) else i + 1
        hi = bisect_left(starts, end)
        new = []
        for a, b, s in ext[lo:hi]:
            if b <= start or a >= end:
                new.append((a, b, s))
            else:
                if a < start:
                    new.append((a, start, s))
                if b > end:
                    new.append((end, b, _Shift(s, end - a)))
        if src is not None:
            new.append((start, end, src))
        if len(new) > 1:
            new.sort(key=lambda e: e[0])
        ext[lo:hi] = new
        starts[lo:hi] = [e[0] for e in new]
        if end > self.length:
            self.length = end

    def write(self, off: int, data: bytes) -> None:
        if data:
            self._put(off, off + len(data), BytesSrc(data))

    def write_blob(self, off: int, data: bytes) -> None:
        if data:
            self._put(off, off + len(data), BlobSrc(data))

    def write_pat(self, off: int, layer: int, wid: int, lba0: int, nsectors: int) -> None:
        self._put(off, off + nsectors * 512, PatSrc(layer, wid, lba0))

    def write_src(self, off: int, length: int, src) -> None:
        self._put(off, off + length, src)

    def punch(self, off: int, length: int) -> None:
        self._put(off, off + length, None)

    def set_length(self, n: int) -> None:
        if n != self.length:
            self._version += 1
        self.length = n

    # -- fault overlay -----------------------------------------------------------------------------
    def add_flip(self, off: int, kind: str, value: int, at_seq: int = 0) -> None:
        """kind: 'xor' | 'set'; becomes visible once the global seq >= at_seq."""
        self._ov.setdefault(off, []).append((at_seq, kind, value))

    def visible_length(self) -> int:
        return self.length if self.trunc_at is None else min(self.length, self.trunc_at)

    # -- reader side -------------------------------------------------------------------------------
    def pread(self, off: int, n: int, seq: int = 1 << 62) -> bytes:
        length = self.visible_length()
        if off >= length or n <= 0:
            return b""
        end = min(off + n, length)
        if end - off > (1 << 30):
            raise MemoryError(f"simulated storage: a single read of {end - off} bytes")
        out = []
        pos = off
        i = bisect_right(self._starts, off) - 1
        if i < 0:
            i = 0
        ext = self._ext
        while pos < end:
            if i < len(ext):
                a, b, s = ext[i]
                if b <= pos:
                    i += 1
                    continue
                if a > pos:
                    gap = min(a, end) - pos
                    out.append(bytes(gap))
                    pos += gap
                    continue
                take = min(b, end) - pos
                chunk = s.gen(pos - a, take)
                if type(s) is PatSrc or (type(s) is _Shift and type(s.src) is PatSrc):
                    self._pat_served += take
                else:
                    self._raw_served += take
                    if type(s) is BlobSrc or (type(s) is _Shift and type(s.src) is BlobSrc):
                        self._blob_served += take
                if len(chunk) < take:
                    chunk = chunk + bytes(take - len(chunk))
                out.append(chunk)
                pos += take
                i += 1
            else:
                out.append(bytes(end - pos))
                pos = end
        buf = b"".join(out)
        if self._ov:
            ba = None
            ov = self._ov
            keys = ov.keys() if len(ov) <= 64 else [o for o in range(off, end) if o in ov] if end - off < len(ov) else ov.keys()
            for o in keys:
                lst = ov[o]
                if off <= o < end:
                    for at_seq, kind, value in lst:
                        if seq >= at_seq:
                            if ba is None:
                                ba = bytearray(buf)
                            if kind == "xor":
                                ba[o - off] ^= value
                            else:
                                ba[o - off] = value
            if ba is not None:
                buf = bytes(ba)
        return buf

    def content_hash(self) -> str:
        import hashlib

        h = hashlib.sha256()
        h.update(str(self.length).encode())
        for a, b, s in self._ext:
            h.update(b"%d:%d:" % (a, b))
            if b - a <= 1 << 20:
                h.update(s.gen(0, b - a))
            else:
                h.update(repr((type(s).__name__, getattr(s, "layer", 0), getattr(s, "wid", 0), getattr(s, "lba0", 0))).encode())
        return h.hexdigest()

    def stored_bytes(self) -> int:
        return sum(b - a for a, b, _ in self._ext)


class _Shift:
    __slots__ = ("src", "delta")

    def __init__(self, src, delta):
        if isinstance(src, _Shift):
            delta += src.delta
            src = src.src
        self.src = src
        self.delta = delta

    def gen(self, rel, n):
        return self.src.gen(rel + self.delta, n)


# ---------------------------------------------------------------------------------------------------------
# monitor: mutation ledger + audit hook
# ---------------------------------------------------------------------------------------------------------

_WRITE_FLAGS = os.O_WRONLY | os.O_RDWR | os.O_CREAT | os.O_TRUNC | os.O_APPEND
_AUDIT_MUTATING = (
    "os.remove", "os.rename", "os.truncate", "os.mkdir", "os.rmdir", "os.link", "os.symlink", "os.chmod", "os.chown",
    "os.utime", "shutil.copyfile", "shutil.move", "shutil.rmtree", "shutil.copytree", "shutil.copymode",
    "shutil.copystat", "tempfile.mkstemp", "tempfile.mkdtemp",
)
_AUDIT_NET = ("socket.connect", "socket.getaddrinfo", "socket.bind", "urllib.Request", "socket.gethostbyname",
              "http.client.connect", "ftplib.connect", "socket.sendto")


class Monitor:
    """Process-wide ledger. `active` brackets the execution of code under test."""

    def __init__(self):
        self.active = False
        self.mutations: list[tuple] = []  # evidence-mutating events
        self.net: list[tuple] = []
        self.opens: list[tuple] = []  # real-fs opens seen while active (path, flags)
        self.allowed_outputs: set[str] = set()
        self._hooked = False

    def install(self):
        if not self._hooked:
            sys.addaudithook(self._hook)
            self._hooked = True

    def reset(self):
        self.mutations = []
        self.net = []
        self.opens = []
        self.allowed_outputs = set()

    def _hook(self, event, args):
        if not self.active:
            return
        deny = None
        try:
            if event == "open":
                path, mode, flags = args
                spath = os.fsdecode(path) if isinstance(path, (bytes, str, os.PathLike)) else repr(path)
                if spath.endswith(".pyc") or "__pycache__" in spath or spath == os.devnull:
                    return
                fl = flags if isinstance(flags, int) else 0
                self.opens.append((spath, fl))
                if fl & _WRITE_FLAGS:
                    self.mutations.append(("os-open-write", spath, fl))
                    deny = PermissionError(errno.EROFS, "hvsim: the real file system is read-only while code under test runs", spath)
            elif event in _AUDIT_MUTATING:
                self.mutations.append((event, repr(args)[:200]))
                deny = PermissionError(errno.EROFS, "hvsim: the real file system is read-only while code under test runs")
            elif event in _AUDIT_NET:
                self.net.append((event, repr(args)[:200]))
                deny = OSError(errno.ENETUNREACH, "hvsim: no network while code under test runs")
        except Exception:  # never let the bookkeeping disturb the run
            pass
        if deny is not None:
            # containment: the event is on record (and will be reported); the real operation is not carried out. An exception
            # raised by an audit hook aborts the audited call.
            raise deny

    def note_mutation(self, kind: str, what: str):
        self.mutations.append((kind, what))


MONITOR = Monitor()


class monitored:
    def __enter__(self):
        MONITOR.active = True
        return MONITOR

    def __exit__(self, *a):
        MONITOR.active = False
        return False


# ---------------------------------------------------------------------------------------------------------
# handles
# ---------------------------------------------------------------------------------------------------------


class SimIOError(OSError):
    pass


class SimHandle:
    """Binary read handle over a SimFile with io.BufferedReader-like semantics (short reads only at EOF).

    Mutating methods *work* (so a buggy reader is not stopped by an exception it might swallow) but are
    recorded in the monitor's ledger.
    """

    def __init__(self, f: SimFile, world=None, name: str | None = None, log=None):
        self._f = f
        self._pos = 0
        self._world = world
        self._log = log
        self.closed = False
        if name is not None:
            self.name = name
        self.eio_at: int | None = None  # fault: raise EIO on the k-th read call of this handle
        # flavour of the armed fault: 'eio' (raise, position untouched), 'eio_partial' (the position has moved on by part of the
        # request when the error surfaces - a buffered reader whose second raw read failed), 'short_meta' (the first read at or
        # after the k-th that is served from literal bytes only - headers, tables - delivers fewer bytes than asked for and than
        # are there, as an unbuffered handle may)
        self.fault_kind = "eio"
        self.reads = 0
        self.bytes_req = 0
        self.bytes_ret = 0
        self.max_req = 0
        self.mode = "rb"

    # -- reading ---------------------------------------------------------------------------------
    def _seq(self):
        w = self._world
        return w.log.seq if w is not None else 1 << 62

    def read(self, n: int | None = -1) -> bytes:
        if self.closed:
            raise ValueError("I/O operation on closed file.")
        self.reads += 1
        if self.eio_at is not None and self.reads >= self.eio_at and self.fault_kind != "short_meta":
            w = self._world
            kind = self.fault_kind
            if w is not None:
                w.faults_fired["eio_on_read" if kind == "eio" else "eio_partial"] += 1
            self.eio_at = None
            self.fault_kind = "eio"
            if kind == "eio_partial" and n is not None and n > 1:
                self._pos += min(n // 2, 4096, max(0, self._f.visible_length() - self._pos))
            raise SimIOError(errno.EIO, "Input/output error (injected)")
        if n is None or n < 0:
            n = max(0, self._f.visible_length() - self._pos)
        self.bytes_req += n
        if n > self.max_req:
            self.max_req = n
        d0 = self._f._pat_served
        r0 = self._f._raw_served
        b0 = self._f._blob_served
        buf = self._f.pread(self._pos, n, self._seq())
        if (self.eio_at is not None and self.reads >= self.eio_at and self.fault_kind == "short_meta" and len(buf) >= 8
                and self._f._pat_served == d0 and self._f._raw_served - r0 == len(buf) and self._f._blob_served == b0):
            buf = buf[: max(1, len(buf) * 3 // 4 - 1)]
            self.eio_at = None
            self.fault_kind = "eio"
            if self._world is not None:
                self._world.faults_fired["short_read_meta"] += 1
        self._pos += len(buf)
        self.bytes_ret += len(buf)
        led = self._f.ledger
        led["data"] += self._f._pat_served - d0
        led["raw"] += self._f._raw_served - r0
        led["calls"] += 1
        led["req"] += n
        led["ret"] += len(buf)
        return buf

    def readinto(self, b) -> int:
        buf = self.read(len(b))
        b[: len(buf)] = buf
        return len(buf)

    def read1(self, n=-1):
        return self.read(n)

    def readall(self):
        return self.read(-1)

    def seek(self, off: int, whence: int = 0) -> int:
        if self.closed:
            raise ValueError("I/O operation on closed file.")
        if whence == 0:
            pos = off
        elif whence == 1:
            pos = self._pos + off
        elif whence == 2:
            pos = self._f.visible_length() + off
        else:
            raise ValueError(f"invalid whence ({whence}, should be 0, 1 or 2)")
        if pos < 0:
            raise OSError(errno.EINVAL, "Invalid argument")
        self._pos = pos
        return pos

    def tell(self) -> int:
        return self._pos

    def readable(self):
        return True

    def seekable(self):
        return True

    def writable(self):
        return False

    def fileno(self):
        raise io.UnsupportedOperation("fileno")

    def isatty(self):
        return False

    def close(self):
        self.closed = True

    def __enter__(self):
        return self

    def __exit__(self, *a):
        self.close()

    def __iter__(self):
        return self

    def __next__(self):
        line = self.readline()
        if not line:
            raise StopIteration
        return line

    def readline(self, limit=-1):
        out = bytearray()
        while True:
            c = self.read(1)
            if not c:
                break
            out += c
            if c == b"\n" or (limit > 0 and len(out) >= limit):
                break
        return bytes(out)

    # -- mutating calls: honoured, but recorded --------------------------------------------------
    def _mut(self, kind, detail=""):
        self._f.mutations += 1
        MONITOR.note_mutation("handle-" + kind, f"{self._f.name}:{detail}")

    def write(self, data) -> int:
        self._mut("write", f"{self._pos}+{len(data)}")
        self._f.write(self._pos, bytes(data))
        self._pos += len(data)
        return len(data)

    def writelines(self, lines):
        for l in lines:
            self.write(l)

    def truncate(self, size=None):
        size = self._pos if size is None else size
        self._mut("truncate", str(size))
        self._f.set_length(size)
        return size

    def flush(self):
        return None


class SimOutHandle:
    """Write-mode handle handed out by SimFS. Declared outputs are fine; anything else is a mutation event."""

    def __init__(self, f: SimFile, path: str, declared: bool, mode: str):
        self._f = f
        self._pos = 0
        self.name = path
        self.closed = False
        self.mode = mode
        if not declared:
            MONITOR.note_mutation("simfs-open-write", f"{path}:{mode}")
        if "a" in mode:
            self._pos = f.length
        elif "w" in mode:
            f._ext = []
            f._starts = []
            f.length = 0
            f._version += 1

    def write(self, data):
        if isinstance(data, str):
            data = data.encode()
        self._f.write(self._pos, bytes(data))
        self._pos += len(data)
        return len(data)

    def read(self, n=-1):
        if n is None or n < 0:
            n = self._f.length - self._pos
        b = self._f.pread(self._pos, n)
        self._pos += len(b)
        return b

    def seek(self, off, whence=0):
        self._pos = off if whence == 0 else (self._pos + off if whence == 1 else self._f.length + off)
        return self._pos

    def tell(self):
        return self._pos

    def truncate(self, size=None):
        self._f.set_length(self._pos if size is None else size)

    def flush(self):
        pass

    def close(self):
        self.closed = True

    def writable(self):
        return True

    def readable(self):
        return "+" in self.mode

    def seekable(self):
        return True

    def __enter__(self):
        return self

    def __exit__(self, *a):
        self.close()


# ---------------------------------------------------------------------------------------------------------
# namespace
# ---------------------------------------------------------------------------------------------------------

_real_path_open = pathlib.Path.open
_real_path_stat = pathlib.Path.stat
_real_builtin_open = builtins.open
_real_tar_open = tarfile.bltn_open


class SimFS:
    """One mount table. Paths under a mount prefix resolve to SimFiles / directories; others fall through."""

    current: "SimFS | None" = None
    _patched = False

    def __init__(self, world=None):
        self.world = world
        self.files: dict[str, SimFile] = {}
        self.dirs: set[str] = set()
        self.mounts: list[str] = []
        self.faults: dict[str, str] = {}  # path -> 'enoent' | 'eacces' | 'eio' | 'eisdir'
        self.open_log: list[tuple[str, str]] = []
        self.declared_outputs: set[str] = set()
        self.handles: list[SimHandle] = []
        self.site_log: set | None = None  # library call sites that opened something (reach measure)

    # -- building --------------------------------------------------------------------------------
    def mount(self, prefix: str):
        prefix = prefix.rstrip("/") or "/"
        if prefix not in self.mounts:
            self.mounts.append(prefix)
        self.mkdir(prefix)

    def mkdir(self, path: str):
        path = path.rstrip("/") or "/"
        while path and path != "/":
            self.dirs.add(path)
            path = path.rsplit("/", 1)[0]

    def add(self, path: str, f: SimFile) -> SimFile:
        f.name = path
        self.files[path] = f
        self.mkdir(path.rsplit("/", 1)[0])
        return f

    def owns(self, spath: str) -> bool:
        for m in self.mounts:
            if spath == m or spath.startswith(m + "/"):
                return True
        return False

    # -- operations ------------------------------------------------------------------------------
    def _norm(self, p) -> str:
        s = os.fspath(p)
        if isinstance(s, bytes):
            s = os.fsdecode(s)
        # collapse '//' and '.'; keep '..' handling simple and explicit
        parts = []
        for comp in s.split("/"):
            if comp in ("", "."):
                continue
            if comp == "..":
                if parts:
                    parts.pop()
                continue
            parts.append(comp)
        return "/" + "/".join(parts)

    def stat(self, spath: str):
        fault = self.faults.get(spath)
        if fault == "enoent":
            if self.world is not None:
                self.world.faults_fired["enoent"] += 1
            raise FileNotFoundError(errno.ENOENT, "No such file or directory (injected)", spath)
        if spath in self.files:
            f = self.files[spath]
            return os.stat_result((stat_mod.S_IFREG | 0o444, 1, 1, 1, 0, 0, f.visible_length(), 0, 0, 0))
        if spath in self.dirs:
            return os.stat_result((stat_mod.S_IFDIR | 0o555, 1, 1, 2, 0, 0, 0, 0, 0, 0))
        raise FileNotFoundError(errno.ENOENT, "No such file or directory", spath)

    def open(self, spath: str, mode: str = "r", **kw):
        self.open_log.append((spath, mode))
        if self.site_log is not None:
            fr = sys._getframe(1)
            while fr is not None:
                fn = fr.f_code.co_filename
                if "/dissect/hypervisor/" in fn:
                    self.site_log.add(fn.split("/dissect/hypervisor/", 1)[1] + ":%d" % fr.f_lineno)
                    break
                fr = fr.f_back
        writing = any(c in mode for c in "wax+")
        fault = self.faults.get(spath)
        if fault and self.world is not None:
            self.world.faults_fired[fault] += 1
        if fault == "enoent":
            raise FileNotFoundError(errno.ENOENT, "No such file or directory (injected)", spath)
        if fault == "eacces":
            raise PermissionError(errno.EACCES, "Permission denied (injected)", spath)
        if fault == "eio":
            raise SimIOError(errno.EIO, "Input/output error (injected)", spath)
        if spath in self.dirs:
            raise IsADirectoryError(errno.EISDIR, "Is a directory", spath)
        if writing:
            declared = spath in self.declared_outputs
            f = self.files.get(spath)
            if f is None:
                if "r" in mode:
                    raise FileNotFoundError(errno.ENOENT, "No such file or directory", spath)
                f = self.add(spath, SimFile(spath))
                if not declared:
                    MONITOR.note_mutation("simfs-create", spath)
            h = SimOutHandle(f, spath, declared, mode)
            if "b" not in mode:
                return _TextOut(h)
            return h
        f = self.files.get(spath)
        if f is None:
            raise FileNotFoundError(errno.ENOENT, "No such file or directory", spath)
        h = SimHandle(f, self.world, name=spath)
        self.handles.append(h)
        if self.world is not None:
            self.world.on_handle(h, spath)
        if "b" in mode:
            return h
        return io.TextIOWrapper(_Raw(h), encoding=kw.get("encoding") or "utf-8", errors=kw.get("errors"),
                                newline=kw.get("newline"))

    # -- patching --------------------------------------------------------------------------------
    def __enter__(self):
        self._prev = SimFS.current
        SimFS.current = self
        SimFS._install()
        return self

    def __exit__(self, *a):
        SimFS.current = getattr(self, "_prev", None)
        return False

    @classmethod
    def _install(cls):
        if cls._patched:
            return
        cls._patched = True

        def path_open(self, mode="r", buffering=-1, encoding=None, errors=None, newline=None):
            fs = SimFS.current
            if fs is not None:
                sp = fs._norm(self)
                if fs.owns(sp):
                    return fs.open(sp, mode, encoding=encoding, errors=errors, newline=newline)
            return _real_path_open(self, mode, buffering, encoding, errors, newline)

        def path_stat(self, *, follow_symlinks=True):
            fs = SimFS.current
            if fs is not None:
                sp = fs._norm(self)
                if fs.owns(sp):
                    return fs.stat(sp)
            return _real_path_stat(self, follow_symlinks=follow_symlinks)

        def b_open(file, mode="r", buffering=-1, encoding=None, errors=None, newline=None, closefd=True, opener=None):
            fs = SimFS.current
            if fs is not None and isinstance(file, (str, bytes, os.PathLike)):
                sp = fs._norm(file)
                if fs.owns(sp):
                    return fs.open(sp, mode, encoding=encoding, errors=errors, newline=newline)
            return _real_builtin_open(file, mode, buffering, encoding, errors, newline, closefd, opener)

        pathlib.Path.open = path_open
        pathlib.Path.stat = path_stat
        builtins.open = b_open
        tarfile.bltn_open = b_open


class _Raw(io.RawIOBase):
    def __init__(self, h: SimHandle):
        self._h = h

    def readable(self):
        return True

    def readinto(self, b):
        return self._h.readinto(b)

    def seekable(self):
        return True

    def seek(self, off, whence=0):
        return self._h.seek(off, whence)

    def tell(self):
        return self._h.tell()

    def close(self):
        self._h.close()
        super().close()


class _TextOut:
    def __init__(self, h):
        self._h = h
        self.name = h.name

    def write(self, s):
        self._h.write(s.encode())
        return len(s)

    def close(self):
        self._h.close()

    def __enter__(self):
        return self

    def __exit__(self, *a):
        self.close()
