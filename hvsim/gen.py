"""Seeded generators shared by the disk engines: writer histories and boundary-biased requests."""
from __future__ import annotations

from hvsim.model import Layer


def gen_layer_ops(rng, nsectors: int, unit: int, caps: dict, nops: int, wid0: int, has_parent: bool,
                  hot_units: list[int] | None = None, gran: int = 1) -> list:
    """A writer history for one layer: list of ops over sectors/units."""
    nunits = (nsectors + unit - 1) // unit
    ops = []
    wid = wid0
    hot = [u for u in (hot_units or []) if 0 <= u < nunits]

    def pick_unit():
        r = rng.random()
        if hot and r < 0.5:
            return rng.choice(hot)
        if r < 0.7:
            return rng.choice([0, nunits - 1, min(1, nunits - 1), max(0, nunits - 2)])
        if nunits <= 64:
            return rng.randrange(nunits)
        base = rng.choice(hot) if hot else rng.choice([0, nunits - 1])
        return min(nunits - 1, max(0, base + rng.randint(-3, 3)))

    for _ in range(nops):
        u = pick_unit()
        r = rng.random()
        if r < 0.55:
            start = u * unit + rng.choice([0, 0, 0, 1, unit - 1, unit // 2, rng.randrange(unit)])
            ln = rng.choice([1, 1, unit, unit, unit - 1, unit + 1, 2 * unit, 3 * unit, rng.randint(1, 2 * unit + 1),
                             max(1, unit // 2)])
            if unit > 4096:  # keep generated data small for huge units
                ln = min(ln, rng.choice([1, 8, 64, 2048]))
            start = min(start, nsectors - 1)
            ln = max(1, min(ln, nsectors - start))
            if gran > 1:
                start -= start % gran
                ln = max(gran, min((ln + gran - 1) // gran * gran, nsectors - start))
            ops.append(["w", start, ln, wid])
            wid += 1
        elif r < 0.75:
            whole = rng.random() < 0.6
            if whole:
                k = rng.choice([1, 1, 2, 3])
                start = u * unit
                ln = min(k * unit, nsectors - start)
            else:
                start = min(u * unit + rng.randrange(unit), nsectors - 1)
                ln = max(1, min(rng.randint(1, unit + 1), nsectors - start))
                if unit > 4096:
                    ln = min(ln, rng.choice([1, 8, 64, 2048]))
                if gran > 1:
                    start -= start % gran
                    ln = max(gran, min((ln + gran - 1) // gran * gran, nsectors - start))
            modes = ["data"]
            if caps.get("zero_units"):
                modes += ["flag", "flag"]
                if caps.get("keep_alloc"):
                    modes.append("zalloc")
            if not has_parent:
                modes.append("dealloc")
            ops.append(["z", start, ln, rng.choice(modes)])
        elif r < 0.85 and caps.get("dealloc"):
            ops.append(["d", u])
        elif r < 0.95 and caps.get("compress"):
            ops.append(["c", u])
        elif caps.get("forced"):
            ops.append(["f", u])
        else:
            start = u * unit
            ln = min(unit, nsectors - start)
            ops.append(["w", start, ln, wid])
            wid += 1
    return ops


def spray_ops(rng, nsectors: int, unit: int, stride_units: int, count: int, wid0: int, gran: int = 1) -> list:
    """One small write every stride_units units: allocates many mapping tables (cache overflow worlds)."""
    ops = []
    nunits = (nsectors + unit - 1) // unit
    u = rng.randrange(max(1, min(stride_units, nunits)))
    wid = wid0
    while u < nunits and len(ops) < count:
        lba = u * unit
        lba -= lba % gran
        ops.append(["w", lba, max(gran, 1), wid])
        wid += 1
        u += stride_units
    return ops


def apply_ops(layer: Layer, ops: list, caps: dict, has_parent: bool) -> None:
    for op in ops:
        k = op[0]
        if k == "w":
            _, lba, n, wid = op
            if lba < layer.n:
                layer.write(lba, min(n, layer.n - lba), wid)
        elif k == "z":
            _, lba, n, mode = op
            if lba >= layer.n:
                continue
            n = min(n, layer.n - lba)
            if mode in ("flag", "zalloc") and caps.get("zero_units"):
                layer.zero(lba, n, True, keep_alloc=(mode == "zalloc" and caps.get("keep_alloc", False)))
            elif mode == "dealloc" and not has_parent:
                layer.zero(lba, n, False)
                for u in layer.units_of(lba, n):
                    a, b = layer.urange(u)
                    if lba <= a and b <= lba + n:
                        layer.dealloc(u)
            else:
                layer.zero(lba, n, False)
        elif k == "d":
            if caps.get("dealloc") and op[1] < layer.nunits:
                layer.dealloc(op[1])
        elif k == "c":
            if caps.get("compress") and op[1] < layer.nunits:
                layer.compress(op[1])
        elif k == "f":
            if caps.get("forced") and op[1] < layer.nunits:
                layer.force_alloc(op[1])


def gen_requests(rng, size: int, unit_bytes: int, marks: list[int], n: int, align: int, sector: int = 512,
                 max_len: int = 1 << 21) -> list:
    """Boundary-biased (offset, length) requests inside [0, size]. marks: interesting byte offsets."""
    reqs = []
    marks = [m for m in marks if 0 <= m <= size] or [0]
    for _ in range(n):
        r = rng.random()
        if r < 0.5:
            base = rng.choice(marks)
        elif r < 0.65:
            base = (rng.randrange(max(1, size // unit_bytes + 1))) * unit_bytes
        elif r < 0.8:
            base = size
        else:
            base = rng.randrange(size + 1)
        off = base + rng.choice([0, 0, 0, -1, 1, -sector, sector, -align, align, -unit_bytes, -rng.randint(0, 2 * align),
                                 rng.randint(0, align), -(unit_bytes // 2)])
        off = max(0, min(size, off))
        ln = rng.choice([1, sector, align, align + 1, align - 1, unit_bytes, unit_bytes + sector, 2 * unit_bytes,
                         3 * unit_bytes + 1, rng.randint(1, 4 * align), rng.randint(1, 2 * unit_bytes + 1), size,
                         unit_bytes - 1, 2 * align])
        ln = max(0, min(ln, max_len))
        reqs.append([off, ln])
    return reqs
