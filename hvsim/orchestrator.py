"""Campaign driver: spreads seeded runs over worker processes, collects probes / fault counts / distinct-state
keys, minimises and confirms violations by replay in a fresh interpreter, applies the known-findings file and
writes the evidence file."""
from __future__ import annotations

import concurrent.futures as cf
import hashlib
import importlib
import json
import multiprocessing as mp
import os
import subprocess
import sys
import time
from collections import Counter

from hvsim import core
from hvsim.core import H

VERIF = os.path.dirname(os.path.dirname(os.path.abspath(__file__)))
REPLAYS = os.path.join(VERIF, "replays")
EVIDENCE = os.path.join(VERIF, "evidence")
KNOWN = os.path.join(VERIF, "known_findings.jsonl")


def engine_for(name: str):
    return importlib.import_module("hvsim.engines." + name)


def run_seed(prop: str, tier: str, verif_seed: int, i: int):
    return H(verif_seed, prop, tier, i) & ((1 << 53) - 1)


# ---------------------------------------------------------------------------------------------------------
# worker side
# ---------------------------------------------------------------------------------------------------------


def _worker_init():
    sys.dont_write_bytecode = True
    try:
        import resource

        resource.setrlimit(resource.RLIMIT_AS, (6 << 30, 6 << 30))
    except Exception:
        pass
    import faulthandler

    faulthandler.enable()


def forked(fn, *args, timeout: float = 900.0):
    """Run fn(*args) in a forked child and return its (pickled) result: library-global state touched by the run dies with
    the child, so every batch / replay / minimisation trial starts from the same pristine process state."""
    import pickle
    import select

    r, w = os.pipe()
    pid = os.fork()
    if pid == 0:
        code = 0
        try:
            os.close(r)
            try:
                _worker_init()
                out = ("ok", fn(*args))
            except BaseException as e:  # noqa: BLE001 - reported to the parent
                import traceback

                out = ("err", f"{type(e).__name__}: {e}\n{traceback.format_exc()[-1200:]}")
            data = pickle.dumps(out)
            with os.fdopen(w, "wb") as fh:
                fh.write(data)
        except BaseException:
            code = 3
        finally:
            os._exit(code)
    os.close(w)
    chunks = []
    deadline = time.time() + timeout
    with os.fdopen(r, "rb") as fh:
        while True:
            left = deadline - time.time()
            if left <= 0 or not select.select([fh], [], [], left)[0]:
                try:
                    os.kill(pid, 9)
                except OSError:
                    pass
                os.waitpid(pid, 0)
                raise core.HarnessError(f"forked run exceeded {timeout}s")
            b = fh.read1(1 << 20)
            if not b:
                break
            chunks.append(b)
    os.waitpid(pid, 0)
    if not chunks:
        raise core.HarnessError("forked run died without a result")
    kind, val = pickle.loads(b"".join(chunks))
    if kind == "err":
        raise core.HarnessError("forked run raised " + val)
    return val


def _work(spec, prop, tier, verif_seed, start, count, max_viol: int = 3):
    """One batch, run in a forked child of the worker: batches are hermetic with respect to process-global library state."""
    E = engine_for(spec["engine"])
    if hasattr(E, "warm_process"):
        E.warm_process()  # lazy compilation / imports happen once in the long-lived worker, children inherit them
    return forked(_work_inner, spec, prop, tier, verif_seed, start, count, max_viol, timeout=3600.0)


def _case_for(E, spec, prop, tier, verif_seed, i):
    seed = run_seed(prop, tier, verif_seed, i)
    if getattr(E, "INDEXED", False):
        return seed, E.gen_case(seed, prop, tier, index=i, verif_seed=verif_seed)
    return seed, E.gen_case(seed, prop, tier, **spec.get("gen_kw", {}))


def run_sequence(engine_name: str, cases: list):
    """Run cases one after the other in this process; returns the result of the last one."""
    E = engine_for(engine_name)
    res = None
    for c in cases:
        res = E.run_case(c)
    return res


def _work_inner(spec: dict, prop: str, tier: str, verif_seed: int, start: int, count: int, max_viol: int = 3):
    E = engine_for(spec["engine"])
    agg = {
        "runs": 0, "steps": 0, "probes": Counter(), "faults": Counter(), "keys": set(), "ntkeys": set(),
        "violations": [], "samples": [], "errors": [], "digests": [], "extra": Counter(), "slow": [],
    }
    for i in range(start, start + count):
        seed = run_seed(prop, tier, verif_seed, i)
        t_case = time.time()
        try:
            if getattr(E, "INDEXED", False):
                case = E.gen_case(seed, prop, tier, index=i, verif_seed=verif_seed)
            else:
                case = E.gen_case(seed, prop, tier, **spec.get("gen_kw", {}))
            res = E.run_case(case)
        except core.HarnessError as e:
            agg["errors"].append((i, seed, "HarnessError: " + str(e)))
            continue
        except Exception as e:  # harness bug - never a verdict
            import traceback

            agg["errors"].append((i, seed, traceback.format_exc()[-1500:]))
            continue
        agg["runs"] += 1
        dt = time.time() - t_case
        if dt > 2.0:
            agg["slow"].append((round(dt, 1), i, str(case.get("fault") or case.get("kind") or case.get("fmt"))[:120]))
        agg["steps"] += res.steps
        agg["probes"].update(res.probes)
        agg["faults"].update(res.faults)
        agg["keys"].update(hashlib.blake2b(repr(k).encode(), digest_size=8).digest() for k in res.keys)
        agg["ntkeys"].update(hashlib.blake2b(repr(k).encode(), digest_size=8).digest() for k in res.nontrivial_keys)
        for k, v in res.extra.items():
            if isinstance(v, (int, float)):
                agg["extra"][k] += v
        agg["digests"].append((i, res.digest[:16]))
        if len(agg["samples"]) < 2 and (i % 97 == 0 or i == start):
            agg["samples"].append(_sample(case))
        if res.violation is not None and len(agg["violations"]) < max_viol:
            agg["violations"].append((i, seed, case, res.violation.to_json(), (start, i)))
    return agg


def _sample(case):
    s = json.loads(core.dumps(case))
    for k in ("ops", "cops", "faults", "wops"):
        if isinstance(s.get(k), list) and len(s[k]) > 8:
            s[k] = s[k][:8] + [f"... {len(s[k]) - 8} more"]
    return s


# ---------------------------------------------------------------------------------------------------------
# known findings
# ---------------------------------------------------------------------------------------------------------


def load_known():
    out = []
    if os.path.exists(KNOWN):
        for line in open(KNOWN):
            line = line.strip()
            if line and not line.startswith("#"):
                out.append(json.loads(line))
    return out


def match_known(prop: str, sig: dict, known: list):
    for k in known:
        if k.get("status") != "known" or k.get("property") != prop:
            continue
        ok = True
        for key, want in k.get("match", {}).items():
            if key.endswith("_has"):
                have = sig.get(key[:-4], [])
                if want not in have:
                    ok = False
            elif key.endswith("_prefix"):
                if not str(sig.get(key[:-7], "")).startswith(want):
                    ok = False
            elif sig.get(key) != want:
                ok = False
        if ok:
            return k
    return None


# ---------------------------------------------------------------------------------------------------------
# replay
# ---------------------------------------------------------------------------------------------------------


def replay_case(case: dict, prelude: list | None = None):
    E = engine_for(case["engine"])
    for c in prelude or []:
        E.run_case(c)  # earlier runs in the same process whose left-over state the violation depends on
    return E.run_case(case)


def write_replay(prop, seed, case, viol, digest, prelude=None) -> str:
    os.makedirs(REPLAYS, exist_ok=True)
    klass = "".join(c if c.isalnum() else "_" for c in viol["class"])[:40]
    path = os.path.join(REPLAYS, f"{prop}-{seed}-{klass}.json")
    doc = {"property": prop, "run_seed": seed, "case": case, "violation": viol, "eventlog_sha256": digest,
           "process": {"PYTHONHASHSEED": "0"}, "repo_rev": repo_rev()}
    if prelude:
        doc["prelude"] = prelude
        doc["prelude_note"] = ("the violation depends on state left in the process by the earlier runs listed in 'prelude' "
                               "(run in this order in one fresh interpreter, then 'case')")
    with open(path, "w") as fh:
        fh.write(core.dumps(doc))
    return path


def repo_rev() -> str:
    try:
        r = subprocess.run(["git", "-C", "/repo", "rev-parse", "--short", "HEAD"], capture_output=True, text=True, timeout=20)
        d = subprocess.run(["git", "-C", "/repo", "status", "--porcelain"], capture_output=True, text=True, timeout=20)
        return r.stdout.strip() + ("+dirty" if d.stdout.strip() else "")
    except Exception:
        return "unknown"


def confirm_replay(path: str) -> tuple[bool, str]:
    """Re-execute the replay file in a fresh interpreter; it must reproduce class and digest."""
    env = dict(os.environ, PYTHONHASHSEED="0", PYTHONDONTWRITEBYTECODE="1")
    try:
        r = subprocess.run([sys.executable, os.path.join(VERIF, "hvsim_main.py"), "replay", path, "--quiet"],
                           capture_output=True, text=True, timeout=600, env=env)
    except subprocess.TimeoutExpired:
        return False, "replay timed out"
    return r.returncode == 1 and "REPRODUCED" in r.stdout, (r.stdout + r.stderr)[-800:]


# ---------------------------------------------------------------------------------------------------------
# campaign
# ---------------------------------------------------------------------------------------------------------


def campaign(prop: str, tier: str, verif_seed: int, spec: dict, workers: int | None = None, budget_s: float | None = None,
             runs: int | None = None, write_evidence: bool = True, corpus: bool = True) -> int:
    from hvsim import shrink

    t0 = time.time()
    workers = workers or min(16, os.cpu_count() or 4)
    total = runs if runs is not None else spec[tier]
    budget = budget_s if budget_s is not None else spec.get(tier + "_wall", 1200 if tier == "thorough" else 240)
    E = engine_for(spec["engine"])
    known = load_known()
    print(f"# property={prop} tier={tier} VERIF_SEED={verif_seed} runs={total} workers={workers} engine={spec['engine']}", flush=True)

    tot = {"runs": 0, "steps": 0, "probes": Counter(), "faults": Counter(), "keys": set(), "ntkeys": set(),
           "violations": [], "samples": [], "errors": [], "extra": Counter(), "slow": []}
    dig = hashlib.sha256()

    # regression corpus first
    corpus_results = []
    if corpus:
        cdir = os.path.join(VERIF, "corpus", prop)
        if os.path.isdir(cdir):
            for fn in sorted(os.listdir(cdir)):
                if fn.endswith(".json"):
                    doc = core.from_jsonable(json.load(open(os.path.join(cdir, fn))))
                    try:
                        res = forked(replay_case, doc["case"], doc.get("prelude"))
                    except Exception as e:
                        tot["errors"].append((fn, 0, f"corpus replay failed: {e!r}"))
                        continue
                    corpus_results.append((fn, res.violation.klass if res.violation else None))
                    if res.violation is not None:
                        tot["violations"].append((-1, doc.get("run_seed", 0), doc["case"], res.violation.to_json(), None))

    if hasattr(E, "preload"):
        E.preload()  # loaded before the fork so that workers share the pages
    exhaustive = False
    if getattr(E, "INDEXED", False):
        plan_n = E.plan_size(prop, tier, verif_seed)  # enumerated in the parent; workers inherit the plan through fork
        if runs is None:
            total = plan_n
            exhaustive = plan_n == getattr(E, "full_plan_size", E.plan_size)(prop, tier, verif_seed)
        print(f"# enumerated plan: {plan_n} (base input x fault) evaluations", flush=True)
    batch = max(5, min(200, total // (workers * 6) or 1))
    if getattr(E, "INDEXED", False):
        batch = getattr(E, "BATCH", 16)  # evaluation cost varies a lot between faults: small batches keep the workers balanced
    jobs = [(s, min(batch, total - s)) for s in range(0, total, batch)]
    deadline = t0 + budget
    timed_out = False
    all_digests = []
    ctx = mp.get_context("fork")
    with cf.ProcessPoolExecutor(max_workers=workers, mp_context=ctx, initializer=_worker_init) as ex:
        futs = {ex.submit(_work, spec, prop, tier, verif_seed, s, c): (s, c) for s, c in jobs}
        try:
            for fut in cf.as_completed(futs, timeout=max(1.0, deadline - time.time())):
                try:
                    agg = fut.result()
                except Exception as e:
                    tot["errors"].append((futs[fut][0], 0, f"worker failed: {e!r}"))
                    continue
                for k in ("runs", "steps"):
                    tot[k] += agg[k]
                for k in ("probes", "faults", "extra"):
                    tot[k].update(agg[k])
                tot["keys"] |= agg["keys"]
                tot["ntkeys"] |= agg["ntkeys"]
                tot["violations"].extend(agg["violations"])
                tot["errors"].extend(agg["errors"])
                tot["slow"].extend(agg["slow"])
                all_digests.extend(agg["digests"])
                if len(tot["samples"]) < 6:
                    tot["samples"].extend(agg["samples"])
        except cf.TimeoutError:
            timed_out = True
            for f in futs:
                f.cancel()
            for p in list(getattr(ex, "_processes", {}).values()):
                try:
                    p.terminate()
                except Exception:
                    pass
    for i, d in sorted(all_digests):
        dig.update(f"{i}:{d}\n".encode())

    # triage violations: known findings vs new; minimise + confirm new ones (one per class)
    new_by_class = {}
    known_hits = Counter()
    known_text = {}
    for rec in sorted(tot["violations"], key=lambda t: (t[0], t[1])):
        i, seed, case, viol = rec[:4]
        span = rec[4] if len(rec) > 4 else None
        k = match_known(prop, viol.get("sig", {}), known)
        if k is not None:
            known_hits[k["id"]] += 1
            known_text[k["id"]] = k["what"]
            continue
        ck = (viol["class"], json.dumps(viol.get("sig", {}), sort_keys=True))
        if ck not in new_by_class:
            new_by_class[ck] = (i, seed, case, viol, span)
    exit_code = 0
    reported = []
    if len(new_by_class) > 4:
        print(f"# {len(new_by_class)} distinct violation signatures; minimising and reporting the first 4. All signatures:", flush=True)
        for (klass, sg), (i, seed, case, viol, span) in list(new_by_class.items())[:40]:
            print(f"#   {klass} {sg[:160]} :: {viol['detail'][:140]}", flush=True)
    ename = spec["engine"]

    def run1(c):  # every trial in a forked child: pristine library state, parent never contaminated
        return forked(run_sequence, ename, [c])

    for (klass, _), (i, seed, case, viol, span) in list(new_by_class.items())[:4]:
        prelude = None
        try:
            res = run1(case)
        except core.HarnessError as e:
            tot["errors"].append((i, seed, f"re-run of violating case failed: {e}"))
            continue
        if res.violation is None or res.violation.klass != klass:
            # not reproducible in isolation: does it depend on state left by the runs that preceded it in its batch?
            if span is not None and span[1] > span[0]:
                pre = [_case_for(E, spec, prop, tier, verif_seed, j)[1] for j in range(span[0], span[1])]
                try:
                    res = forked(run_sequence, ename, pre + [case])
                except core.HarnessError as e:
                    res = None
                    tot["errors"].append((i, seed, f"prelude re-run failed: {e}"))
                if res is not None and res.violation is not None and res.violation.klass == klass:
                    # minimise the prelude (ddmin over earlier runs), keeping the same class
                    holder = {"pre": pre}

                    def run_pre(c, holder=holder):
                        return forked(run_sequence, ename, c["__pre__"] + [c["__case__"]])

                    wrap = {"__pre__": pre, "__case__": case}
                    wrap = shrink.ddmin_list(run_pre, wrap, "__pre__", klass, time.time() + spec.get("shrink_s", 25))
                    prelude = wrap["__pre__"]
                    res = forked(run_sequence, ename, prelude + [case])
                    if res.violation is None or res.violation.klass != klass:
                        prelude = pre
                        res = forked(run_sequence, ename, prelude + [case])
                    mcase = case
                else:
                    tot["errors"].append((i, seed, f"violation {klass} reproduces neither alone nor after the {len(pre)} runs before it in its batch (determinism defect)"))
                    continue
            else:
                tot["errors"].append((i, seed, f"violation {klass} did not reproduce in a fresh process (determinism defect)"))
                continue
        if prelude is None:
            try:
                mcase = shrink.minimise(run1, case, klass, getattr(E, "SHRINK_LISTS", []), getattr(E, "simplify", None),
                                        budget_s=spec.get("shrink_s", 25))
                res = run1(mcase)
                if res.violation is None or res.violation.klass != klass:
                    mcase, res = case, run1(case)
            except Exception:
                mcase, res = case, run1(case)
            if res.violation is None:
                tot["errors"].append((i, seed, f"violation {klass} vanished during minimisation (determinism defect)"))
                continue
            if match_known(prop, res.violation.sig, known) is not None:
                mcase, res = case, run1(case)  # minimisation drifted into a known finding's signature
        vj = res.violation.to_json()
        if prelude:
            vj["class"] = vj["class"]
            vj["detail"] = f"[after {len(prelude)} earlier run(s) in the same process] " + vj["detail"]
        path = write_replay(prop, seed, mcase, vj, res.digest, prelude)
        ok, out = confirm_replay(path)
        if not ok:
            tot["errors"].append((i, seed, f"replay of {path} did not reproduce: {out}"))
            continue
        print(f"VIOLATION property={prop} replay={path}", flush=True)
        print(f"#   class={res.violation.klass} detail={vj['detail']}", flush=True)
        reported.append({"class": res.violation.klass, "detail": vj["detail"], "replay": path, "prelude_runs": len(prelude or [])})
        exit_code = 1
    for kid, n in sorted(known_hits.items()):
        print(f"KNOWN-FINDING: property={prop} {kid}: {known_text[kid]} (hit {n}x this run)", flush=True)
    # known findings listed for this property are always announced (the corpus replays them)
    for k in known:
        if k.get("status") == "known" and k.get("property") == prop and k["id"] not in known_hits:
            print(f"KNOWN-FINDING: property={prop} {k['id']}: {k['what']} (not hit by this run's seeds)", flush=True)

    wall = time.time() - t0
    if tot["errors"]:
        print(f"# HARNESS ERRORS: {len(tot['errors'])}", flush=True)
        for e in tot["errors"][:5]:
            print("#   ", str(e)[:1200].replace("\n", "\n#    "), flush=True)
    if tot["slow"]:
        print("# slowest evaluations (s, index, what):", sorted(tot["slow"], reverse=True)[:6], flush=True)
    if timed_out:
        print(f"# wall budget of {budget}s hit after {tot['runs']} of {total} runs", flush=True)
    runs_done = tot["runs"]
    if write_evidence and runs_done > 0:
        ev = {
            "property_id": prop, "tier": tier, "seed": verif_seed, "level": spec["level"],
            "coverage": {
                "evaluations": runs_done,
                "distinct_nontrivial": len(tot["ntkeys"]),
                "distinct_states": len(tot["keys"]),
                "rule": spec["rule"],
                "samples": tot["samples"][:4],
                "exhaustive": bool(exhaustive and not timed_out),
                "simulated_steps": tot["steps"],
                "simulated_time_note": "the repo has no clock; simulated time is the global event sequence number",
                "runs_per_hour": int(runs_done / max(wall, 1e-6) * 3600),
                "faults_fired": dict(tot["faults"]),
                "probes": dict(sorted(tot["probes"].items())),
                "probes_at_zero": [p for p in spec.get("expected_probes", []) if not tot["probes"].get(p)],
                "real_components": spec.get("real", ["dissect.hypervisor (reader under test)", "dissect.util.stream", "dissect.cstruct", "zlib"]),
                "stub_components": spec.get("stubs", ["image writer peer", "storage (SimFile/SimHandle)", "namespace (SimFS)"]),
                "campaign_digest": dig.hexdigest(),
                "corpus_replayed": corpus_results,
                "known_findings_hit": dict(known_hits),
                "new_violations": reported,
                "harness_errors": len(tot["errors"]),
                "requested_runs": total, "timed_out": timed_out, "workers": workers,
                "extra": dict(tot["extra"]),
            },
            "assumptions": spec.get("assumptions", []),
            "wall_s": round(wall, 2),
            "violations": len(reported),
        }
        if hasattr(E, "evidence_extra"):
            ev["coverage"].update(E.evidence_extra())
        os.makedirs(EVIDENCE, exist_ok=True)
        with open(os.path.join(EVIDENCE, f"{prop}.json"), "w") as fh:
            json.dump(ev, fh, indent=1, sort_keys=True, default=str)
    print(f"# campaign_digest={dig.hexdigest()}", flush=True)
    print(f"# done: runs={runs_done} distinct={len(tot['keys'])} nontrivial={len(tot['ntkeys'])} wall={wall:.1f}s "
          f"violations={len(reported)} known={sum(known_hits.values())} errors={len(tot['errors'])}", flush=True)
    if exit_code == 0 and (tot["errors"] and runs_done == 0):
        return 2
    if exit_code == 0 and len(tot["errors"]) > max(3, runs_done // 100):
        return 2
    return exit_code
