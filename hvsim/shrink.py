"""Minimisation: ddmin over the op/fault lists of a case, then engine-provided simplifications.
A candidate is kept iff it still yields a violation of the same class (property, klass)."""
from __future__ import annotations

import copy
import time


def _same(run, case, klass):
    try:
        res = run(case)
    except Exception:
        return False
    return res.violation is not None and res.violation.klass == klass


def ddmin_list(run, case, key, klass, deadline):
    items = case[key]
    n = 2
    while len(items) >= 1 and time.time() < deadline:
        chunk = max(1, len(items) // n)
        reduced = False
        i = 0
        while i < len(items) and time.time() < deadline:
            cand_items = items[:i] + items[i + chunk :]
            cand = dict(case)
            cand[key] = cand_items
            if _same(run, cand, klass):
                items = cand_items
                case = cand
                n = max(n - 1, 2)
                reduced = True
            else:
                i += chunk
        if not reduced:
            if chunk == 1:
                break
            n = min(len(items), n * 2)
    case = dict(case)
    case[key] = items
    return case


def minimise(run, case, klass, lists, simplify=None, budget_s: float = 20.0):
    deadline = time.time() + budget_s
    orig = {k: len(case.get(k, [])) for k in lists}
    case = copy.deepcopy(case)
    for _ in range(2):
        for key in lists:
            if case.get(key):
                case = ddmin_list(run, case, key, klass, deadline)
        if simplify is not None:
            changed = True
            while changed and time.time() < deadline:
                changed = False
                for cand in simplify(case):
                    if time.time() >= deadline:
                        break
                    if _same(run, cand, klass):
                        case = cand
                        changed = True
                        break
    case["minimised_from"] = orig
    return case
