"""Self-tests of the harness: determinism of event-log digests across interpreters / hash seeds / worker counts,
and equivalence of the stream-buffer knob with the real DISSECT_STREAM_BUFFER_SIZE environment variable."""
from __future__ import annotations

import hashlib
import os
import subprocess
import sys

VERIF = os.path.dirname(os.path.dirname(os.path.abspath(__file__)))
MAIN = os.path.join(VERIF, "hvsim_main.py")


def digests(prop: str, tier: str, start: int, count: int, verif_seed: int = 1):
    from hvsim import orchestrator
    from hvsim.props import PROPS

    spec = PROPS[prop]
    E = orchestrator.engine_for(spec["engine"])
    out = []
    for i in range(start, start + count):
        seed = orchestrator.run_seed(prop, tier, verif_seed, i)
        if getattr(E, "INDEXED", False):
            case = E.gen_case(seed, prop, tier, index=i, verif_seed=verif_seed)
        else:
            case = E.gen_case(seed, prop, tier, **spec.get("gen_kw", {}))
        res = E.run_case(case)
        out.append((i, res.digest[:16], res.violation.klass if res.violation else "-"))
    return out


def _sub(args, hashseed="0", env_extra=None):
    env = dict(os.environ, HVSIM_HASHSEED=str(hashseed), PYTHONHASHSEED=str(hashseed), PYTHONDONTWRITEBYTECODE="1")
    env.update(env_extra or {})
    r = subprocess.run([sys.executable, MAIN] + args, capture_output=True, text=True, env=env, timeout=3600)
    if r.returncode not in (0, 1):
        raise RuntimeError(f"{args} failed rc={r.returncode}: {r.stderr[-2000:]}")
    return r.stdout


def determinism(props, n: int) -> int:
    from concurrent.futures import ThreadPoolExecutor

    bad = 0
    chunk = max(1, n // 8)
    for prop in props:
        jobs = []
        for hs in ("0", "0", "12345"):
            for s in range(0, n, chunk):
                jobs.append((hs, s, min(chunk, n - s)))
        with ThreadPoolExecutor(16) as ex:
            outs = list(ex.map(lambda j: _sub(["digests", prop, "quick", str(j[1]), str(j[2])], j[0]), jobs))
        per = {}
        for (hs, s, c), out in zip(jobs, outs):
            for line in out.splitlines():
                if line.startswith("D "):
                    _, i, d, k = line.split()
                    per.setdefault(int(i), []).append(d + k)
        diverged = [i for i, ds in per.items() if len(set(ds)) != 1 or len(ds) != 3]
        # worker-count independence of the campaign digest
        cd = []
        for w in ("1", "4", "16"):
            out = _sub(["check", prop, "quick"], "0", {"VERIF_RUNS": str(min(n, 400)), "VERIF_WORKERS": w, "HVSIM_NO_EVIDENCE": "1"})
            for line in out.splitlines():
                if line.startswith("# campaign_digest="):
                    cd.append(line.split("=", 1)[1])
        ok = not diverged and len(set(cd)) == 1 and len(cd) == 3
        print(f"determinism {prop}: seeds={len(per)} x3 runs (PYTHONHASHSEED 0,0,12345) diverged={len(diverged)} "
              f"campaign_digest@1/4/16 workers={'same' if len(set(cd)) == 1 else cd} -> {'OK' if ok else 'FAIL'}", flush=True)
        if not ok:
            bad += 1
            print("   diverged seeds:", diverged[:10])
    return 1 if bad else 0


def align_equivalence(n: int = 60) -> int:
    """The in-process knob must give the same digests as the real environment variable."""
    bad = 0
    for align in (512, 4096, 65536):
        a = _sub(["digests-align", str(align), "0", str(n), "knob"], "0")
        b = _sub(["digests-align", str(align), "0", str(n), "env"], "0", {"DISSECT_STREAM_BUFFER_SIZE": str(align)})
        same = [l for l in a.splitlines() if l.startswith("D ")] == [l for l in b.splitlines() if l.startswith("D ")]
        print(f"align {align}: knob vs DISSECT_STREAM_BUFFER_SIZE env -> {'same' if same else 'DIFFERENT'}")
        bad += 0 if same else 1
    return 1 if bad else 0


def digests_align(align: int, start: int, count: int, how: str):
    """Runs disk cases of several formats forcing one buffer size, either via the knob or via the environment."""
    from hvsim import core, orchestrator
    from hvsim.engines import disk

    out = []
    fmts = ["vdi", "hds", "vhd", "vhdx", "vmdk", "qcow2"]
    for i in range(start, start + count):
        fmt = fmts[i % len(fmts)]
        case = disk.gen_case(orchestrator.run_seed("ALIGN", "quick", 1, i), "C08", "quick", fmt=fmt)
        if F_sector(fmt, case) > align or align % F_sector(fmt, case):
            continue
        case["align"] = align
        if how == "env":
            import dissect.util.stream as S

            assert S.STREAM_BUFFER_SIZE == align, (S.STREAM_BUFFER_SIZE, align)
            real = core.set_stream_align
            core.set_stream_align = lambda a: None  # the environment decides
            disk.set_stream_align = lambda a: None
            try:
                res = disk.run_case(case)
            finally:
                core.set_stream_align = real
                disk.set_stream_align = real
        else:
            res = disk.run_case(case)
        out.append((i, res.digest[:16], res.violation.klass if res.violation else "-"))
    return out


def F_sector(fmt, case):
    from hvsim.engines import disk

    return disk.fmt_module(fmt).sector_size(case["cfg"])


def main(argv) -> int:
    from hvsim.props import PROPS

    what = argv[0] if argv else "determinism"
    if what == "determinism":
        props = argv[1].split(",") if len(argv) > 1 else sorted(PROPS)
        n = int(argv[2]) if len(argv) > 2 else 200
        return determinism(props, n)
    if what == "align":
        return align_equivalence()
    print("selftest determinism [props] [n] | align")
    return 2
