"""Reference model of guest-visible disk content.

Content is a function, not stored bytes: sector `lba` written by write `wid` of layer `layer` is 32 repetitions of
the 16-byte record (layer:u16, wid:u32, lba:u64, chk:u16).  Every sector is unique per (layer, write, lba), never
all-zero, and can be evaluated at LBA 2^40 without storing anything.
"""
from __future__ import annotations

import struct
from bisect import bisect_right

SECTOR = 512
_REC = struct.Struct("<HIQH")

POISON_LAYER = 0xFFFF  # sectors that must never be served to a guest (stale / undefined host data)


def _chk(layer: int, wid: int, lba: int) -> int:
    return ((layer * 40503) ^ (wid * 9973) ^ (lba * 31337) ^ (lba >> 16) ^ 0xA5C3) & 0xFFFF


def pattern(layer: int, wid: int, a: int, b: int) -> bytes:
    """Bytes of sectors [a, b) of (layer, wid)."""
    pack = _REC.pack
    return b"".join([pack(layer, wid, l, _chk(layer, wid, l)) * 32 for l in range(a, b)])


def describe(buf: bytes, off: int = 0) -> str:
    """Human-readable identity of the sector starting at buf[off] (for violation details)."""
    rec = buf[off : off + 16]
    if len(rec) < 16:
        return f"<{len(rec)} bytes>"
    if rec == bytes(16):
        return "zeros"
    layer, wid, lba, chk = _REC.unpack(rec)
    if chk == _chk(layer, wid, lba):
        if layer == POISON_LAYER:
            return f"POISON(tag={wid},hostsec={lba})"
        return f"(layer={layer},wid={wid},lba={lba})"
    return "garbage:" + rec[:8].hex()


class IMap:
    """Interval map over sector numbers: sorted, non-overlapping (start, end, value)."""

    __slots__ = ("iv",)

    def __init__(self, iv=None):
        self.iv = list(iv) if iv else []

    def copy(self) -> "IMap":
        return IMap(self.iv)

    def set(self, s: int, e: int, v) -> None:
        """Assign v to [s, e); v=None clears (falls through)."""
        if e <= s:
            return
        new = []
        for a, b, x in self.iv:
            if b <= s or a >= e:
                new.append((a, b, x))
            else:
                if a < s:
                    new.append((a, s, x))
                if b > e:
                    new.append((e, b, x))
        if v is not None:
            new.append((s, e, v))
        new.sort(key=lambda t: t[0])
        self.iv = new

    def segs(self, s: int, e: int):
        """List of (a, b, v|None) covering [s, e) exactly."""
        out = []
        pos = s
        starts = [t[0] for t in self.iv]
        i = max(0, bisect_right(starts, s) - 1)
        while pos < e and i < len(self.iv):
            a, b, x = self.iv[i]
            if b <= pos:
                i += 1
                continue
            if a >= e:
                break
            if a > pos:
                out.append((pos, a, None))
                pos = a
            t = min(b, e)
            out.append((pos, t, x))
            pos = t
            i += 1
        if pos < e:
            out.append((pos, e, None))
        return out

    def any(self, s: int, e: int) -> bool:
        return any(v is not None for _, _, v in self.segs(s, e))

    def full(self, s: int, e: int) -> bool:
        return all(v is not None for _, _, v in self.segs(s, e))


class Layer:
    """One image layer: sector-granular effects of the guest ops applied through it plus per-unit flags."""

    def __init__(self, lid: int, nsectors: int, unit: int):
        self.id = lid
        self.n = nsectors
        self.unit = unit  # sectors per allocation unit
        self.own = IMap()  # ('D', layer, wid) | 'Z'
        self.flags: dict[int, str] = {}  # unit -> 'zero' | 'zalloc' | 'comp' | 'forced' (allocated w/o own data)
        self.touch: list[int] = []  # units in first-allocation order
        self._touched = set()

    @property
    def nunits(self) -> int:
        return (self.n + self.unit - 1) // self.unit

    def urange(self, u: int):
        return u * self.unit, min((u + 1) * self.unit, self.n)

    def units_of(self, lba: int, n: int):
        return range(lba // self.unit, (lba + n - 1) // self.unit + 1)

    def _touch(self, u: int):
        if u not in self._touched:
            self._touched.add(u)
            self.touch.append(u)

    # -- guest ops ---------------------------------------------------------------------------------
    def write(self, lba: int, n: int, wid: int):
        self.own.set(lba, lba + n, ("D", self.id, wid))
        for u in self.units_of(lba, n):
            self.flags.pop(u, None)
            self._touch(u)

    def zero(self, lba: int, n: int, zero_units: bool, keep_alloc: bool = False):
        """Guest write-zeroes. Whole units become 'zero'-flagged units when the format has such a state."""
        self.own.set(lba, lba + n, "Z")
        for u in self.units_of(lba, n):
            a, b = self.urange(u)
            if zero_units and lba <= a and b <= lba + n:
                had = u in self._touched and self.flags.get(u) not in ("zero",)
                self.flags[u] = "zalloc" if (keep_alloc and had) else "zero"
            else:
                self.flags.pop(u, None)
                self._touch(u)

    def dealloc(self, u: int):
        """Unit becomes unallocated in this layer: reads fall through to the layer below."""
        a, b = self.urange(u)
        self.own.set(a, b, None)
        self.flags.pop(u, None)
        if u in self._touched:
            self._touched.discard(u)
            self.touch.remove(u)

    def compress(self, u: int):
        self.flags[u] = "comp"
        self._touch(u)

    def force_alloc(self, u: int):
        """Allocate the unit without guest data of its own (e.g. preallocation / copy-on-read)."""
        if self.ustate(u) == "unalloc":
            self.flags[u] = "forced"
            self._touch(u)

    def ustate(self, u: int) -> str:
        f = self.flags.get(u)
        if f:
            return f
        a, b = self.urange(u)
        return "data" if self.own.any(a, b) else "unalloc"


class View:
    """Guest view through a stack of layers (top first). Below the base everything is zeros."""

    def __init__(self, layers: list[Layer]):
        self.layers = layers
        self.n = layers[0].n

    def segs(self, s: int, e: int, depth: int = 0):
        """(a, b, v) with v = ('D', layer, wid) | 'Z', covering [s, e); sectors past a layer's end fall to zeros."""
        if depth >= len(self.layers):
            return [(s, e, "Z")]
        L = self.layers[depth]
        out = []
        if s >= L.n:
            return [(s, e, "Z")]
        lim = min(e, L.n)
        for a, b, v in L.own.segs(s, lim):
            if v is None:
                out.extend(self.segs(a, b, depth + 1))
            else:
                out.append((a, b, v))
        if lim < e:
            out.append((lim, e, "Z"))
        return out

    def sectors(self, s: int, e: int) -> bytes:
        parts = []
        for a, b, v in self.segs(s, e):
            if v == "Z":
                parts.append(bytes((b - a) * SECTOR))
            else:
                parts.append(pattern(v[1], v[2], a, b))
        return b"".join(parts)

    def expected(self, off: int, length: int) -> bytes:
        """Bytes [off, off+length) clipped to the disk size."""
        size = self.n * SECTOR
        end = min(off + length, size)
        if end <= off:
            return b""
        s0 = off // SECTOR
        s1 = (end + SECTOR - 1) // SECTOR
        buf = self.sectors(s0, s1)
        skip = off - s0 * SECTOR
        return buf[skip : skip + (end - off)]

    def below(self) -> "View | None":
        return View(self.layers[1:]) if len(self.layers) > 1 else None

    def kinds(self, s: int, e: int):
        """Mapping-kind sequence of the range (for distinct-state keys)."""
        out = []
        for a, b, v in self.segs(s, e):
            k = "Z" if v == "Z" else "D%d" % v[1]
            if not out or out[-1] != k:
                out.append(k)
        return out


class ExtView:
    """A window [start, start+n) of a view in window-relative sector coordinates (one extent / storage of a
    larger disk). Pattern identity stays absolute: `shift` is added when content is generated."""

    def __init__(self, view: View, start: int, n: int):
        self.view = view
        self.shift = start + getattr(view, "shift", 0)
        self._start = start
        self.n = n

    def segs(self, s: int, e: int):
        return [(a - self._start, b - self._start, v) for a, b, v in self.view.segs(s + self._start, e + self._start)]

    def sectors(self, s: int, e: int) -> bytes:
        return self.view.sectors(s + self._start, e + self._start)


def slice_layer(layer: Layer, start: int, n: int, lid: int | None = None) -> Layer:
    """The part of a layer covering sectors [start, start+n) as a layer of its own (start must be unit aligned)."""
    assert start % layer.unit == 0
    out = Layer(layer.id if lid is None else lid, n, layer.unit)
    for a, b, v in layer.own.segs(start, start + n):
        if v is not None:
            out.own.set(a - start, b - start, v)
    u0 = start // layer.unit
    nu = out.nunits
    for u in layer.touch:
        if u0 <= u < u0 + nu:
            out._touch(u - u0)
    for u, fl in layer.flags.items():
        if u0 <= u < u0 + nu:
            out.flags[u - u0] = fl
    return out


def first_mismatch(got: bytes, want: bytes) -> int:
    n = min(len(got), len(want))
    if got[:n] == want[:n]:
        return n
    lo, hi = 0, n
    while hi - lo > 1:
        mid = (lo + hi) // 2
        if got[lo:mid] == want[lo:mid]:
            lo = mid
        else:
            hi = mid
    return lo
