"""Property registry: which engine decides which property, run counts per tier, evidence text."""

_DISK_RULE = (
    "one evaluation = one seeded run: a stub writer history renders an image on simulated storage, the real reader "
    "opens it and serves boundary-biased requests, every returned buffer is compared with the guest-disk reference "
    "model. distinct = distinct (format, feature set, geometry class, mapping-kind bigram set of the touched range, "
    "request class, stream buffer size) tuples; non-trivial = the touched range holds >=2 mapping kinds, or the "
    "request crosses a unit boundary, or starts mid-unit."
)

PROPS = {
    "C01": dict(engine="disk", level="exploration", quick=20000, thorough=200000, rule=_DISK_RULE,
                expected_probes=["qcow2.l2_tables_gt_128", "qcow2.v2_header_without_v3_fields", "qcow2.extended_l2",
                                 "qcow2.external_data_file", "qcow2.compressed_clusters", "qcow2.compressed_host_offset_ge_4GiB",
                                 "qcow2.compressed_offset_unaligned", "qcow2.data_host_offset_ge_4GiB", "qcow2.data_host_offset_ge_1TiB",
                                 "qcow2.backing_shorter_than_image", "qcow2.run_crosses_l2_boundary", "qcow2.unit_zero", "qcow2.unit_zalloc"],
                assumptions=["QCOW2 layout per qemu docs/interop/qcow2.txt (no fixture in the repo); refcount structures are placeholders"]),
    "C02": dict(engine="disk", level="exploration", quick=20000, thorough=200000, rule=_DISK_RULE,
                expected_probes=["vmdk.kind_hosted", "vmdk.kind_stream", "vmdk.kind_cowd", "vmdk.kind_sesparse", "vmdk.kind_flat",
                                 "vmdk.gd_in_footer", "vmdk.gd_entries_gt_128", "vmdk.capacity_not_multiple_of_16_sectors",
                                 "vmdk.adjacent_grains_merged", "vmdk.zero_grain"],
                assumptions=["hosted sparse / stream-optimised / COWD layouts per VMware Virtual Disk Format 1.1 and QEMU vmdk.c (no fixture); SE-sparse stub anchored on tests/data/sesparse.vmdk"]),
    "C03": dict(engine="disk", level="exploration", quick=8000, thorough=150000, rule=_DISK_RULE,
                expected_probes=["vhdx.sb_entries_interleaved", "vhdx.sector_4096", "vhdx.blocks_out_of_order",
                                 "vhdx.read_starts_midblock_crosses_block", "vhdx.state_2", "vhdx.state_6"],
                assumptions=["VHDX layout per [MS-VHDX]; stub anchored on tests/data/dynamic.vhdx (CRC-32C of header and region table reproduced)"]),
    "C04": dict(engine="disk", level="exploration", quick=20000, thorough=300000, rule=_DISK_RULE,
                expected_probes=["vhd.footer_511", "vhd.fixed", "vhd.size_not_multiple_of_block", "vhd.blocks_out_of_order"],
                assumptions=["VHD layout per the Microsoft VHD specification 1.0; stub anchored on tests/data/dynamic.vhd"]),
    "C05": dict(engine="disk", level="exploration", quick=20000, thorough=300000, rule=_DISK_RULE,
                expected_probes=["vdi.multi_block_request_permuted", "vdi.zero_block", "vdi.unallocated_block"],
                assumptions=["VDI layout per VirtualBox VDICore.h (no fixture in the repo)"]),
    "C06": dict(engine="disk", level="exploration", quick=20000, thorough=300000, rule=_DISK_RULE,
                expected_probes=["hds.alloc_offset_equals_preceding_sparse_run", "hds.v1_units", "hds.v2_units", "hds.plain"],
                assumptions=["HDS layout per ploop1_image.h / qemu parallels.txt; stub anchored on tests/data/expanding.hdd"]),
}

PROPS["C08"] = dict(
    engine="history", level="exploration", quick=6000, thorough=120000,
    rule=("one evaluation = one seeded access history (10-400 ops of seek/read/readinto/peek/readoffset/readall/tell/"
          "read_sectors over 1-2 stream objects) replayed under two stream buffer sizes on one image (stub image of any "
          "format, or one of the repo's real samples); oracle = length/position contract + single-array consistency of "
          "every returned byte. distinct = (format, op kind, buffer size, tail?, aligned?, larger-than-buffer?, cache knob) "
          "tuples; non-trivial = the operation is unaligned in offset or length."),
    expected_probes=["stream.src_fixture", "stream.src_stub", "stream.cache_shrunk", "stream.two_buffer_sizes",
                     "stream.align_ge_1MiB"] + ["stream.fmt_" + f for f in ("qcow2", "vmdk", "vhdx", "vhd", "vdi", "hds", "hdd")],
    assumptions=["caller does not move the underlying handle behind the stream's back; single caller thread",
                 "the cache knob re-wraps the reader's lru_cache attributes by name (skipped when absent)"],
    stubs=["image writer peer", "storage (SimFile/SimHandle)", "namespace (SimFS)", "clients (seeded histories)"],
)

PROPS["C07"] = dict(
    engine="chains", level="exploration", quick=12000, thorough=120000,
    rule=("one evaluation = one seeded layered writer history (2-6 layers; VHDX differencing, VMDK delta extents via descriptors "
          "or embedded descriptors, Parallels snapshot chains, QCOW2 backing chains and internal snapshots, VDI parents) rendered "
          "on the simulated namespace in one of five parent-location configurations, optionally with a namespace fault on an "
          "ancestor; requests are compared with the n-layer overlay model, faulted chains must be refused at open. distinct = "
          "(kind, depth, view, number of layers contributing to the range, alignment class, location) tuples; non-trivial = the "
          "requested range is served by >=2 different layers, or the open had to be refused."),
    expected_probes=["chain.kind_" + k for k in ("vhdx", "vmdk", "hdd", "qcow2", "qcow2snap", "vdi")] +
                    ["chain.fault_" + f for f in ("missing_parent", "eacces_parent", "corrupt_parent", "no_name", "empty_hint", "no_backing_arg", "allow_no_backing", "missing_image")] +
                    ["chain.loc_" + l for l in ("same", "sibling", "absolute", "stale_abs_local")],
    assumptions=["parents are immutable once a child exists (copy-on-write content of a child equals the parent's)",
                 "a parent file that exists but is corrupted is only required to be refused where the format validates a signature (VHDX)"],
)

PROPS["C10"] = dict(
    engine="extents", level="exploration", quick=12000, thorough=150000,
    rule=("one evaluation = one seeded directory on the simulated namespace: a VMDK descriptor naming 1-8 extents (FLAT, VMFS, "
          "SPARSE incl. stream-optimised, VMFSSPARSE, SESPARSE; names with spaces/unicode; flat file offsets), or an explicit list "
          "of extent handles, or a Parallels .hdd with several storages listed in any order; each extent has its own writer "
          "history; requests straddle extent boundaries and end at the tail; a missing extent file must make open fail. "
          "distinct = (mode, extent kinds, number of extents the request touches, tail?) tuples; non-trivial = the request "
          "touches >=2 extents, or the open had to be refused."),
    expected_probes=["extents.mode_descriptor", "extents.mode_handles", "extents.mode_hdd", "extents.fault_missing_extent",
                     "extents.extent_not_multiple_of_16_sectors", "extents.n_8"] + ["extents.kind_" + k for k in ("flat", "hosted", "stream", "cowd", "sesparse", "hds")],
    assumptions=["ZERO extents (no backing file) and extent names containing directory separators are outside the property's enumeration and are not generated; "
                 "names contain spaces, unicode, line-separator characters and quote characters in their interior (the descriptor syntax has no escape: a name "
                 "that begins or ends with a quote character cannot be written unambiguously and is not generated)"],
)

PROPS["C13"] = dict(
    engine="lazy", level="exploration", quick=1000, thorough=60000,
    rule=("one evaluation = one seeded large image (virtual size GiB..tens of TiB, host offsets beyond 2^32 bytes / 2^32 sectors) "
          "opened and read at extreme offsets twice: once sparse, once with hundreds to thousands of additional allocation units "
          "outside the requested ranges. Oracles: byte ledger of the storage fake within K*(request + 2*buffer) + K*mapping-metadata "
          "touched; identical ledgers for the sparse/dense pair; content equals the model. distinct = (format, features, size "
          "class, near/far offset, request size class) tuples; non-trivial = the request lies beyond 4 GiB."),
    expected_probes=["lazy.fmt_" + f for f in ("qcow2", "vmdk", "vhdx", "vhd", "vdi", "hds")] +
                    ["lazy.virtual_size_ge_1TiB", "lazy.virtual_size_ge_16TiB", "lazy.more_than_2^32_sectors", "lazy.metamorphic_pair",
                     "lazy.host_file_ge_4GiB", "lazy.host_file_ge_2^32_sectors"],
    assumptions=["budget constants K_REQ=4, K_META=4, C_REQ=256KiB, K_OPEN=4, C_OPEN=1MiB (reading a table twice stays inside them)",
                 "the dense variant adds allocations only in mapping tables no request touches, so correct lazy code must produce the same ledger"],
)

PROPS["C14"] = dict(
    engine="meta", level="exploration", quick=12000, thorough=200000,
    rule=("one evaluation = one seeded metadata-rich image (QCOW2 extensions/backing name/snapshot table; VHDX metadata items, "
          "parent locator and dual headers with a stale slot; VMDK embedded or standalone descriptor with ddb entries and extent "
          "lines; VHD footer/dynamic header; VDI header; Parallels descriptor with storages, images, shots, TopGUID) opened by "
          "the real reader; every exposed attribute is compared with the value the writer stored. distinct = (format, counts of "
          "snapshots/extensions/locator entries/extents/ddb keys, variant flags) tuples; every case is non-trivial (it carries "
          "at least the mandatory metadata set)."),
    expected_probes=["meta.kind_" + k for k in ("qcow2", "vhdx", "vmdk", "vhd", "vdi", "hdd")] +
                    ["meta.qcow2_ext_len_mod8_%d" % i for i in range(8)] + ["meta.qcow2_snap_entry_mod8_%d" % i for i in range(8)] +
                    ["meta.qcow2_snap_extra_%d" % i for i in (0, 16, 24, 32, 40)] + ["meta.vhdx_newer_header_slot_0", "meta.vhdx_newer_header_slot_1",
                     "meta.vmdk_hosted", "meta.vmdk_stream", "meta.vmdk_standalone"],
    assumptions=["format identifiers the reader documents as case-normalised (QCOW2 backing format) are compared case-insensitively",
                 "descriptor values avoid embedded double quotes and leading/trailing blanks inside quotes (no defined escaping)"],
)

PROPS["C09"] = dict(
    engine="monitor", level="exploration", quick=8000, thorough=120000,
    rule=("one evaluation = one seeded workload on the simulated namespace (disk open+reads of every format by handle and by path, "
          "chains, multi-extent descriptors, the repo's real samples, all HDD._open_image candidate branches, vmtar by name and by "
          "file object, Envelope/KeyStore, the envelope-decrypt CLI with a declared --output, HyperVFile, VMX/OVF/VBox/PVS/"
          "DiskDescriptor text) with 0-3 error-path faults (EIO on the k-th read of a file, ENOENT/EACCES on a path, truncation, "
          "bit flips). Oracle: empty mutation ledger (handle write/truncate, write-mode opens on SimFS and at OS level, "
          "remove/rename/truncate/mkdir/tempfile audit events, network events) and unchanged version counters of all simulated "
          "files. distinct = (workload kind, format/sub-kind, set of fault kinds) tuples; non-trivial = at least one fault."),
    expected_probes=["monitor.kind_" + k for k in ("disk", "chains", "extents", "fixture", "hddpaths", "vmtar", "envelope", "cli", "hyperv", "text")],
    assumptions=["dynamic part only: a write on a branch no workload reaches is invisible (evidence lists reached vs candidate call sites)",
                 "the CLI's --output path is the single declared output"],
    real=["dissect.hypervisor (all parsers + tools.envelope.main)", "dissect.util.stream", "dissect.cstruct", "defusedxml", "tarfile/gzip (stdlib)", "PyCryptodome"],
)

_FAULT_RULE = ("one evaluation = one (base input, fault) pair from an enumerated plan. Base inputs: one stub image per format/feature kind "
               "(quick; three per kind in thorough), a chain of every kind, a multi-extent descriptor world, and the repo's real fixtures "
               "(disks, Hyper-V, envelope, keystore, vmtar, encrypted VMX). distinct = (base, fault kind, field/fault name, outcome class) "
               "tuples; every evaluation is non-trivial (it carries a fault, except one fault-free control per base).")
PROPS["C11"] = dict(
    engine="faultsim", level="fault_enumeration", quick=0, thorough=0, quick_wall=600, thorough_wall=2400,
    rule=_FAULT_RULE + " Faults (C11): every field of the writer's field map x {0, 1, max, max-1, value+-1, self-reference, other tables' "
         "offsets, x2, 2^31, 2^32-1}, 'late' variants after open, truncation at structure boundaries +-1, seeded multi-byte corruption, "
         "crafted reference cycles and inflate bombs. Oracle: returns or raises within A+B*(input+request) line events (A=1e6, B=16), "
         "peak traced allocation <= C+D*(...) (C=64 MiB, D=32; measured on every 4th evaluation), every inflate output <= its allocation unit.",
    expected_probes=["outcome.served", "outcome.refused", "outcome.raised"],
    assumptions=["budgets are linear in bytes delivered by the storage seam (capped by bytes stored) + request bytes",
                 "step counts are LINE events of all Python code executed inside the call (sys.monitoring)"],
    real=["dissect.hypervisor (all parsers)", "dissect.util.stream", "dissect.cstruct", "defusedxml", "tarfile/gzip", "zlib (through a recording proxy)", "PyCryptodome"],
)
PROPS["C12"] = dict(
    engine="faultsim", level="fault_enumeration", quick=0, thorough=0, quick_wall=600, thorough_wall=2400,
    rule=_FAULT_RULE + " Faults (C12): for every gate of the property's mechanism list - every single-bit flip of each validated "
         "signature (exhaustive), every version in a dense range around the accepted ones, out-of-range cluster_bits, crypt_method, "
         "and explicit gates (data-file bit without data file, backing name without backing argument, unknown compression type, "
         "sub-cluster size, missing VHDX regions/items, active-header signature/version, Parallels image type, missing "
         "DiskDescriptor.xml, descriptor-named sparse extent with a foreign magic, envelope attributes/cipher/footer version, "
         "keystore mode, key-safe identifier and locator kinds). Oracle: open raises.",
    expected_probes=["outcome.refused"],
    assumptions=["signatures a reader does not validate by design (VHD cookie, VMDK(fh) on unknown magic = flat extent, inactive header copies) are not gates"],
)

PROPS["C19"] = dict(
    engine="xmlsim", level="fault_enumeration", quick=0, thorough=0, quick_wall=300, thorough_wall=1200,
    rule=("one evaluation = one (entry point, hostile-XML family, parameter, position, variant) document from an enumerated grid: "
          "4 entry points (OVF, VBox, PVS, DiskDescriptor via HDD(path) on the simulated namespace) x {internal entities nested 1..12 deep, "
          "quadratic blow-up, external general entities (simulated file, real file, http), external parameter entities, external "
          "DTD subset with/without entities, declared-but-unused (general, parameter) entities} x {element, attribute} plus four control "
          "documents; 4 (quick) / 16 (thorough) textual variants each (prolog comments/PIs with tag-like text, junk before the XML declaration), per document flavour. distinct = (entry, family, parameter, position, outcome) tuples; "
          "non-trivial = the document declares an entity."),
    expected_probes=["xml.entry_" + e for e in ("ovf", "vbox", "pvs", "hdd")] + ["xml.outcome_refused", "xml.outcome_parsed"],
    assumptions=["'refused' = the constructor raises any Exception", "network and file access are observed through sys.addaudithook and the simulated namespace's open log"],
    real=["dissect.hypervisor descriptor parsers + disk.hdd.Descriptor", "defusedxml", "pyexpat"],
    stubs=["namespace (SimFS) incl. the honeypot file", "hostile document generator"],
)

PROPS["C15"] = dict(
    engine="cryptosim", level="fault_enumeration", quick=0, thorough=0, quick_wall=300, thorough_wall=2400,
    rule=("one evaluation = one (sealed VMX, tamper) pair from an enumerated plan. Fault-free: 54 (quick) / 216 (thorough) sealer "
          "configurations covering AES-128/192/256 x HMAC-SHA-1 / HMAC-SHA-1-128 / HMAC-SHA-256 x PBKDF2-SHA-1/256 x rounds x salt "
          "lengths x 1-4 pairs x configuration lengths of every padding residue; unlock must yield exactly the sealed entries. "
          "Tamper faults: every byte position of the wrapped-key blob and of encryption.data (IV, ciphertext, MAC) x masks "
          "{0x01,0x80,0xFF} (16 masks in thorough), truncation, and six wrong-passphrase variants; unlock must raise and leave "
          "VMX.attr unchanged. distinct = (cipher, MAC, KDF, tamper kind, multi-pair) tuples; every evaluation is non-trivial."),
    expected_probes=["crypto.C15_none", "crypto.C15_wrap", "crypto.C15_data", "crypto.C15_pass", "crypto.mac_HMAC-SHA-1", "crypto.mac_HMAC-SHA-1-128",
                     "crypto.mac_HMAC-SHA-256", "crypto.cipher_AES-128", "crypto.cipher_AES-192", "crypto.cipher_AES-256",
                     "crypto.kdf_PBKDF2-HMAC-SHA-1", "crypto.kdf_PBKDF2-HMAC-SHA-256"],
    assumptions=["the sealer stub follows the scheme the reader cites (no public spec); anchored on tests/data/encrypted.vmx unlocking with 'password'",
                 "key safes hold passphrase pairs only"],
    real=["dissect.hypervisor.descriptor.vmx", "hashlib/hmac", "PyCryptodome AES-CBC"], stubs=["key safe / configuration sealer", "tamper injector"],
)
PROPS["C16"] = dict(
    engine="cryptosim", level="fault_enumeration", quick=0, thorough=0, quick_wall=300, thorough_wall=2400,
    rule=("one evaluation = one (sealed envelope + keystore, tamper) pair from an enumerated plan. Fault-free: 40 / 200 sealer "
          "configurations (payload lengths hitting the padding extremes, attribute sets of every AttributeType in any order, "
          "with/without AAD, padding and filler variants, keystore text styles) - Envelope.decrypt must return the payload, the CLI "
          "must write exactly those bytes to --output on the simulated namespace, KeyStore must derive the stub's key. Tamper faults: "
          "every byte of every attribute record (type, flag, name, value) x masks, ciphertext positions (head, tail, strided), every "
          "tag byte, tag size, footer version, AAD variants, wrong keys, CLI on a tampered envelope; decrypt must raise and return "
          "nothing. distinct = (tamper kind/region, AAD?, #extra attributes, payload residue) tuples."),
    expected_probes=["crypto.C16_none", "crypto.C16_byte", "crypto.C16_aad", "crypto.C16_key", "crypto.C16_cli", "crypto.C16_keystore", "crypto.C16_tagsize_set"] +
                    ["crypto.attr_type_%x" % t for t in range(1, 13)],
    assumptions=["reserved bytes of attribute records, the zero fill after the terminator and the header size word are not attributes (the reader's "
                 "header re-serialisation normalises them) and are not tampered", "envelope/keystore layouts derived from the reader's references + fixtures"],
    real=["dissect.hypervisor.util.envelope", "dissect.hypervisor.tools.envelope.main", "PyCryptodome AES-GCM", "hashlib"],
    stubs=["envelope sealer", "keystore writer", "tamper injector", "namespace (SimFS) for the CLI"],
)

PROPS["C17"] = dict(
    engine="storesim", level="exploration", quick=4000, thorough=80000,
    rule=("one evaluation = one seeded history of store operations (set of typed values incl. strings/arrays on both sides of 0x800 "
          "bytes, delete, table rewrite, header flip) executed by the stub store writer as a log of device writes (copy-on-write "
          "key tables: new object with sequence+1, registration = commit, optional release of the old object), decoded by the real "
          "reader at the end and at every crash point (history cut between any two device writes): pre-commit cuts must decode to "
          "the old tree, post-commit cuts to the new one. distinct = (cut class, number of key tables, tree depth, value types) "
          "tuples; non-trivial = the expected tree is not empty."),
    expected_probes=["store.file_objects", "store.additional_object_table", "store.two_versions_of_a_table_registered", "store.stale_header_slot_invalid", "store.cuts_all",
                     "store.tables_1", "store.tables_4", "store.type_int", "store.type_float", "store.type_str", "store.type_bytes", "store.type_bool"],
    assumptions=["no public specification: the stub follows the structures the reader cites and is anchored on the two fixtures (evidence 'anchors'); "
                 "independence of oracle and reader is weakest here", "checksums are written as zero (the reader does not verify them)",
                 "replay-log entries are not generated (a clean store has none)"],
    stubs=["store writer peer (device-write log with crash cuts)", "storage (SimFile/SimHandle)"],
)

NOT_BUILT_REASON = "check not built yet in this session (see DESIGN.md section 11 for the build order); not claimed until its engine exists"

NOT_APPLICABLE = {
    "C18": "pure text -> list functions (VMX.parse, OVF/VBox/PVS(fh).disks()): no storage, namespace, handle state, clock, fault or history for a simulator to own; any check would be input generation under another name (DESIGN.md section 0)",
    "C20": "extraction is a pure function of the archive bytes through the stdlib tarfile reader; the statement has no history, fault, crash or interleaving dimension (DESIGN.md section 0)",
}

_DISK_TEXT = ("seeded deterministic simulation: sampled exploration of (writer history x image geometry x placement x request) against a "
              "reference model, in a fault-free configuration (about 90 % of the runs, incl. a twin image read first in the same process) "
              "and a fault-injecting one (transient I/O faults - EIO, EIO after the position moved, short delivery of structured "
              "metadata - during open and inside requests, placed by the trace of a warm attempt; the faulted operation may fail, "
              "nothing may ever return wrong bytes); a clean batch is evidence, not proof")
_DISK_NOTE = ("trusted base: the writer stub's reading of the format, the reference model, SimFile/SimHandle semantics "
              "(buffered-file semantics: short reads only at EOF, except where the short-delivery fault is injected); sampling, not exhaustive")
_DISK_TECH = ("deterministic simulation (stub writer peer + simulated storage + reference model oracle) with transient I/O fault "
              "injection at the handle seam, seeded search, ddmin replay")

MANIFEST_TEXT = {
    "C17": dict(text="seeded deterministic simulation of a copy-on-write store writer with crash points between device writes; key/value tree "
                     "model compared after every step and at every cut, decoded twice per object, in 20 % of the runs with a transient "
                     "I/O fault during the first decode; sampled",
                design_ref="DESIGN.md 4/C17", note="trusted base: the stub writer's reading of an undocumented format (fixture-anchored by an independent decoder)",
                technique="deterministic simulation (stub store writer as a device-write log, crash-point cuts, tree reference model), seeded search, ddmin replay"),
    "C15": dict(text="deterministic simulation against a stub sealer: fault-free round trips over the cipher/MAC/KDF matrix and enumerated "
                     "single-byte tamper faults over every encrypted field; oracle: exact entries / raises with attr unchanged",
                design_ref="DESIGN.md 4/C15", note="complete over the enumerated (position x mask) grid of the sampled configurations; sealer shares provenance with the reader (fixture-anchored)",
                technique="deterministic simulation with tamper-fault enumeration (byte x mask over every authenticated field) against a stub sealer peer"),
    "C16": dict(text="deterministic simulation against stub envelope/keystore sealers incl. the CLI on a simulated namespace: round trips and "
                     "enumerated tamper faults over header attributes, ciphertext, tag, tag size, AAD, key",
                design_ref="DESIGN.md 4/C16", note="complete over the enumerated tamper grid of the sampled configurations; sealer shares provenance with the reader (fixture-anchored, see evidence 'anchors')",
                technique="deterministic simulation with tamper-fault enumeration against a stub sealer peer; CLI output checked on the simulated namespace"),
    "C19": dict(text="deterministic simulation with an enumerated grid of hostile XML documents at every XML entry point; oracle: refused, "
                     "no OS open / honeypot read / network audit event, step and allocation budgets; control documents parse identically",
                design_ref="DESIGN.md 4/C19", note="complete over the enumerated grid (families x depths x positions); the grid samples 'all XML documents'",
                technique="deterministic simulation with fault enumeration (hostile XML families) + audit-hook / namespace monitors + step and allocation meters"),
    "C11": dict(text="deterministic simulation with enumerated faults on stored bytes (field-aware values, truncation points, corruption, "
                     "cycles, bombs, late faults) under a deterministic step meter and allocation meters; complete over the enumerated "
                     "plan, which is itself a sample of 'all byte strings'",
                design_ref="DESIGN.md 4/C11", note="budgets are calibrated constants (>=50x fault-free maxima); a hang is a step-budget event, not a timeout",
                technique="deterministic simulation with fault enumeration (field map x value set, truncation, cycles, bombs) + step/allocation meters"),
    "C12": dict(text="deterministic simulation with enumerated gate faults (exhaustive single-bit flips of every validated signature, version "
                     "ranges, unsupported features); oracle: open raises",
                design_ref="DESIGN.md 4/C12", note="the gate whitelist is taken from the property's mechanism list; enumeration is exhaustive per base input for signatures",
                technique="deterministic simulation with fault enumeration over every gate (bit flips of signatures, versions, feature flags)"),
    "C09": dict(text="seeded deterministic simulation with error-path fault injection; seam-side mutation ledger (simulated handles and "
                     "namespace, sys.addaudithook) as the invariant after every workload; dynamic part of the property only",
                design_ref="DESIGN.md 4/C09", note="does not decide the 'statically, all code paths' half of the quantifier; reach is reported as "
                "library call sites that opened files vs an AST scan of candidate sites",
                technique="deterministic simulation + fault injection (EIO/ENOENT/EACCES/truncate/bitflip) with a mutation ledger at the storage/namespace seam and OS audit hook"),
    "C14": dict(text="seeded deterministic simulation: fault-free configuration, writer crash states (stale secondary header) and a "
                     "fault-injecting configuration (one read call fails while the image is opened or inspected: the open may fail, what is "
                     "exposed without an exception must equal what is stored); metadata recorded by the stub writer vs attributes exposed "
                     "by the reader; sampled",
                design_ref="DESIGN.md 4/C14", note=_DISK_NOTE, technique="deterministic simulation (stub writer records stored metadata; invariant at acquisition; header-update crash states)"),
    "C13": dict(text="seeded deterministic simulation on sparse virtual storage with an I/O ledger: absolute budgets, a sparse/dense "
                     "metamorphic pair with identical expected ledgers, and content at extreme offsets; sampled",
                design_ref="DESIGN.md 4/C13", note=_DISK_NOTE + "; budget constants are generous and linear in request + touched metadata",
                technique="deterministic simulation with seam-side I/O accounting (storage ledger), metamorphic sparse/dense pair, reference model"),
    "C10": dict(text="seeded deterministic simulation of descriptor-driven multi-file disks on a simulated namespace (incl. missing-extent "
                     "and truncated-extent faults); concatenation reference model; sampled",
                design_ref="DESIGN.md 4/C10", note=_DISK_NOTE, technique="deterministic simulation (multi-file worlds on a simulated namespace, missing-file fault), concatenation model, ddmin replay"),
    "C07": dict(text="seeded deterministic simulation of layered writer histories on a simulated namespace with parent-location "
                     "configurations, namespace faults (missing / unreadable / corrupt ancestors, damaged descriptors, an intact twin chain "
                     "elsewhere) and transient I/O faults inside requests on any layer's handle; n-layer overlay model + 'open must raise' "
                     "oracle; sampled",
                design_ref="DESIGN.md 4/C07", note=_DISK_NOTE + "; parent resolution is exercised through the patched pathlib seam only",
                technique="deterministic simulation (layered stub writers + simulated namespace + namespace fault injection), overlay reference model, ddmin replay"),
    "C08": dict(text="seeded deterministic simulation of client access histories over every stream class, two buffer sizes per history, "
                     "self-consistency + contract oracle (layered worlds also against each view's reference content); 15 % of the histories "
                     "carry transient I/O faults armed between operations (the operation that meets one may fail and the client "
                     "re-positions; every byte returned then or later must be right); sampled, not exhaustive",
                design_ref="DESIGN.md 4/C08", note="trusted base: SimFile/SimHandle semantics, the contract model of AlignedStream positions; "
                "a consistent misread is C01-C06's business, not C08's", technique="deterministic simulation of access histories (seeded search over op sequences x buffer sizes x cache knobs), ddmin replay"),
    "C01": dict(text=_DISK_TEXT, design_ref="DESIGN.md 4/C01", note=_DISK_NOTE, technique=_DISK_TECH),
    "C02": dict(text=_DISK_TEXT, design_ref="DESIGN.md 4/C02", note=_DISK_NOTE, technique=_DISK_TECH),
    "C03": dict(text=_DISK_TEXT, design_ref="DESIGN.md 4/C03", note=_DISK_NOTE, technique=_DISK_TECH),
    "C04": dict(text=_DISK_TEXT, design_ref="DESIGN.md 4/C04", note=_DISK_NOTE, technique=_DISK_TECH),
    "C05": dict(text=_DISK_TEXT, design_ref="DESIGN.md 4/C05", note=_DISK_NOTE, technique=_DISK_TECH),
    "C06": dict(text=_DISK_TEXT, design_ref="DESIGN.md 4/C06", note=_DISK_NOTE, technique=_DISK_TECH),
}
