"""hvsim - deterministic simulation harness for dissect.hypervisor (see /verif/DESIGN.md)."""
