#!/venv/bin/python
"""CLI of the hvsim harness: check <ID> quick|thorough, replay <file>, selftest <name>."""
import json
import os
import sys

_hs = os.environ.get("HVSIM_HASHSEED", "0")  # self-tests run the harness under another hash seed on purpose
if os.environ.get("PYTHONHASHSEED") != _hs:
    os.environ["PYTHONHASHSEED"] = _hs
    os.environ["PYTHONDONTWRITEBYTECODE"] = "1"
    os.execv(sys.executable, [sys.executable] + sys.argv)

sys.dont_write_bytecode = True
HERE = os.path.dirname(os.path.abspath(__file__))
sys.path.insert(0, HERE)
repo = os.environ.get("VERIF_REPO", "/repo")
sys.path.insert(0, repo)  # the working tree under test (pure Python, nothing to build)


def main(argv):
    if len(argv) < 2:
        print(__doc__)
        return 2
    cmd = argv[1]
    if cmd == "replay":
        from hvsim import core, orchestrator

        orchestrator._worker_init()  # the same address-space cap the campaign workers run under

        doc = core.from_jsonable(json.load(open(argv[2])))
        res = orchestrator.replay_case(doc["case"], doc.get("prelude"))
        quiet = "--quiet" in argv
        if res.violation is None:
            print("NOT-REPRODUCED: the replay passes on this tree")
            return 0
        same = res.violation.klass == doc["violation"]["class"] and res.digest == doc["eventlog_sha256"]
        if not quiet:
            print(json.dumps(res.violation.to_json(), indent=1))
        print(("REPRODUCED" if same else "DIFFERENT") + f" class={res.violation.klass} digest={res.digest[:16]}")
        if same or res.violation is not None:
            if not quiet:
                print(f"VIOLATION property={doc['property']} replay={os.path.abspath(argv[2])}")
            return 1
        return 0
    if cmd == "digests":
        from hvsim import selftest

        for i, d, k in selftest.digests(argv[2], argv[3], int(argv[4]), int(argv[5])):
            print("D", i, d, k)
        return 0
    if cmd == "digests-align":
        from hvsim import selftest

        for i, d, k in selftest.digests_align(int(argv[2]), int(argv[3]), int(argv[4]), argv[5]):
            print("D", i, d, k)
        return 0
    if cmd == "selftest":
        from hvsim import selftest

        return selftest.main(argv[2:])
    if cmd == "check":
        prop, tier = argv[2], (argv[3] if len(argv) > 3 else os.environ.get("VERIF_TIER", "quick"))
        from hvsim import orchestrator
        from hvsim.props import PROPS

        if prop not in PROPS:
            print(f"unknown or unclaimed property {prop}")
            return 2
        seed = int(os.environ.get("VERIF_SEED", "1"))
        budget = os.environ.get("VERIF_BUDGET_S")
        runs = os.environ.get("VERIF_RUNS")
        workers = os.environ.get("VERIF_WORKERS")
        return orchestrator.campaign(prop, tier, seed, PROPS[prop], workers=int(workers) if workers else None,
                                     budget_s=float(budget) if budget else None, runs=int(runs) if runs else None,
                                     write_evidence=not os.environ.get("HVSIM_NO_EVIDENCE"),
                                     corpus=not os.environ.get("HVSIM_NO_CORPUS"))
    print(__doc__)
    return 2


if __name__ == "__main__":
    sys.exit(main(sys.argv))
