#!/bin/bash
# tools/eval_all_seeded.sh [out-file]  - every seeded change against the quick check of its property; prints one line per change
OUT=${1:-/dev/stdout}
for d in /verif/seeded/C*; do
  ID=$(basename $d)
  R=$(/verif/tools/eval_seeded.sh $ID 2>&1)
  V=$(echo "$R" | grep -c '^VALID=1')
  C=$(echo "$R" | grep -E '^check' | grep -c 'exit 1')
  echo "$ID valid=$V caught=$C $(echo "$R" | grep -A1 '^check' | grep '^#' | head -1 | cut -c1-160)" >> $OUT
done
