#!/bin/bash
# tools/eval_all_seeded.sh <out-file> [stride offset]  - every seeded change against the check(s) named in its meta.json
# ("caught_by" lists the properties); prints one line per change.  With stride/offset the list is split for parallel runs.
OUT=${1:-/dev/stdout}; STRIDE=${2:-1}; OFFS=${3:-0}
i=0
for d in /verif/seeded/C*; do
  i=$((i+1)); [ $((i % STRIDE)) -eq $OFFS ] || continue
  ID=$(basename $d)
  PROPS=$(python3 -c "
import json,re,sys
m=json.load(open('$d/meta.json'))
cb=m.get('caught_by') or m['property']
ps=re.findall(r'C\d\d',cb.split('not C')[0].split('; not')[0])
print(' '.join(dict.fromkeys(ps)) or m['property'])")
  T=$(python3 -c "import json;print(json.load(open('$d/meta.json')).get('tier','quick'))")
  R=$(TIER=$T /verif/tools/eval_seeded.sh $ID $PROPS 2>&1)
  V=$(echo "$R" | grep -c '^VALID=1')
  C=$(echo "$R" | grep -E '^check' | grep -c 'exit 1')
  N=$(echo "$R" | grep -cE '^check')
  echo "$ID valid=$V caught=$C/$N ($PROPS) $(echo "$R" | grep -A1 '^check' | grep '^#' | head -1 | cut -c1-140)" >> $OUT
done
