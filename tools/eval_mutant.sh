#!/bin/bash
# tools/eval_mutant.sh <patch.diff> <demo.py> <prop> [more props...]
# Applies the patch to a scratch worktree (never to /repo), verifies: 47 tests pass with it, demo FAILs with it and PASSes
# without it; then runs the named checks against the scratch tree (VERIF_REPO) and reports caught / missed.
set -u
PATCH=$(readlink -f "$1"); DEMO=$(readlink -f "$2"); shift 2
W=/tmp/mev/w$$
mkdir -p /tmp/mev
git -C /repo worktree add -q --detach $W HEAD || exit 3
trap 'git -C /repo worktree remove --force $W >/dev/null 2>&1' EXIT
cd $W
mkdir -p $W/_out
sed "s#/tmp/mut/C[0-9][0-9]#$W#g" "$DEMO" > $W/_out/_demo.py   # same depth as where the author ran it (paths relative to the file keep working)
PASS0=$(PYTHONPATH=$W timeout 300 /venv/bin/python _out/_demo.py >/dev/null 2>&1; echo $?)
git apply "$PATCH" 2>/dev/null || git apply --3way "$PATCH" || { echo "RESULT patch-does-not-apply"; exit 3; }
TESTS=$(timeout 600 /venv/bin/python -m pytest -q -p no:cacheprovider 2>&1 | tail -1)
FAIL1=$(PYTHONPATH=$W timeout 300 /venv/bin/python _out/_demo.py >/dev/null 2>&1; echo $?)
echo "demo on clean tree: exit $PASS0 (want 0); demo with change: exit $FAIL1 (want 1); tests with change: $TESTS"
OK=1
[ "$PASS0" = "0" ] || OK=0
[ "$FAIL1" != "0" ] || OK=0
echo "$TESTS" | grep -q "47 passed" || OK=0
echo "VALID=$OK"
cd /verif
for P in "$@"; do
  OUT=$(VERIF_REPO=$W HVSIM_NO_EVIDENCE=1 timeout 1500 ./check $P ${TIER:-quick} 2>&1)
  RC=$?
  echo "check $P -> exit $RC  $(echo "$OUT" | grep -c '^VIOLATION') violation line(s)"
  echo "$OUT" | grep -A1 '^VIOLATION' | grep '^#' | head -3
  echo "$OUT" | grep -E "HARNESS|errors=[1-9]" | head -2
done
