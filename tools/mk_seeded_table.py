#!/usr/bin/env python3
"""Regenerates the table of seeded changes in DESIGN.md (between the markers) from seeded/*/meta.json."""
import glob
import json
import re

rows = []
for p in sorted(glob.glob("/verif/seeded/C*/meta.json")):
    m = json.load(open(p))
    first = m["needs_to_manifest"].strip().splitlines()[0]
    title = re.sub(r"^#+\s*", "", first)
    title = re.sub(r"^(C\d\d\s*[/,-]?\s*)?[Cc]hange\s*\d\s*[-:–—]*\s*", "", title).strip(" -:")
    title = re.sub(r"^C\d\d\s+change\s+\d\s*[-:]\s*", "", title)
    title = title.replace("|", "/")[:150]
    cb = (m.get("caught_by") or "-").replace("|", "/")
    rows.append(f"| {m['id']} | {m['property']} | {'yes' if m['caught_at_first_evaluation'] else 'no'} | {cb} | {title} |")
head = "| id | breaks | caught at first evaluation | caught by (what had to be added) | change |\n|----|----|----|----|----|\n"
table = head + "\n".join(rows) + "\n"
d = open("/verif/DESIGN.md").read()
a, b = "<!-- seeded-table-begin -->\n", "<!-- seeded-table-end -->\n"
if a in d:
    d = d[: d.index(a) + len(a)] + table + d[d.index(b):]
else:
    i = d.index("| id | breaks | caught at first evaluation")
    j = d.rfind("\n| C19-4 |")
    j = d.index("\n", j + 1) + 1
    d = d[:i] + a + table + b + d[j:]
open("/verif/DESIGN.md", "w").write(d)
print(len(rows), "rows")
