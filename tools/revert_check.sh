#!/bin/bash
# tools/revert_check.sh <fix-commit> <prop> [prop...]
# Sensitivity self-test: reverts one "fix:" commit in a scratch worktree (never in /repo) and runs the named checks against it
# with the regression corpus disabled - the seeded search / enumerated plan itself must find the defect again.
set -u
C=$1; shift
W=/tmp/mev/r$$
mkdir -p /tmp/mev
git -C /repo worktree add -q --detach $W HEAD || exit 3
trap 'git -C /repo worktree remove --force $W >/dev/null 2>&1' EXIT
( cd $W && git show $C | git apply -R ) || { echo "$C revert-does-not-apply"; exit 3; }
cd /verif
for P in "$@"; do
  OUT=$(VERIF_REPO=$W HVSIM_NO_EVIDENCE=1 HVSIM_NO_CORPUS=1 timeout 1500 ./check $P ${TIER:-quick} 2>&1)
  RC=$?
  echo "revert $C: check $P -> exit $RC, $(echo "$OUT" | grep -c '^VIOLATION') violation line(s): $(echo "$OUT" | grep -A1 '^VIOLATION' | grep '^#' | head -1 | cut -c1-160)"
done
