#!/bin/bash
# tools/eval_seeded.sh <id> [props...]   e.g. tools/eval_seeded.sh C02-6   (default: the property the change was seeded for)
ID=$1; shift
P=${ID%-*}
[ $# -gt 0 ] || set -- $P
exec /verif/tools/eval_mutant.sh /verif/seeded/$ID/patch.diff /verif/seeded/$ID/demo.py "$@"
