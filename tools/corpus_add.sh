#!/bin/bash
# tools/corpus_add.sh <replay.json> <short-name>   -> corpus/<prop>/<short-name>.json
set -e
prop=$(python3 -c "import json,sys;print(json.load(open(sys.argv[1]))['property'])" "$1")
mkdir -p /verif/corpus/$prop
cp "$1" /verif/corpus/$prop/$2.json
echo "added corpus/$prop/$2.json"
