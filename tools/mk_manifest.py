#!/venv/bin/python
"""Regenerate /verif/MANIFEST.json from hvsim/props.py (claimed checks) + the fixed N/A reasons."""
import json
import os
import sys

HERE = os.path.dirname(os.path.dirname(os.path.abspath(__file__)))
sys.path.insert(0, HERE)
from hvsim.props import PROPS, MANIFEST_TEXT, NOT_APPLICABLE, NOT_BUILT_REASON  # noqa: E402

ids = [json.loads(l)["id"] for l in open(os.path.join(HERE, "properties.jsonl"))]
checks = []
for pid in ids:
    if pid not in PROPS:
        continue
    spec = PROPS[pid]
    t = MANIFEST_TEXT[pid]
    checks.append({
        "property_id": pid,
        "quick_cmd": f"./check {pid} quick",
        "thorough_cmd": f"./check {pid} thorough",
        "evidence_file": f"/verif/evidence/{pid}.json",
        "replay_cmd_template": "./check replay {path}",
        "engine": "hvsim/" + spec["engine"],
        "level_claimed": {"category": spec["level"], "text": t["text"], "design_ref": t["design_ref"]},
        "level_note": t["note"],
        "technique": t["technique"],
    })
na = []
for pid in ids:
    if pid in PROPS:
        continue
    na.append({"property_id": pid, "reason": NOT_APPLICABLE.get(pid, NOT_BUILT_REASON)})
hooks_commits = []
m = {
    "version": 1,
    "setup_cmd": "/venv/bin/python -c \"import sys; sys.path.insert(0,'/verif'); sys.path.insert(0,'/repo'); import hvsim.orchestrator, dissect.hypervisor, hypothesis; print('hvsim ok')\"",
    "hooks": {
        "guard": "DISSECT_HYPERVISOR_VERIF",
        "enable": "no hook exists: every seam the simulator needs (caller-supplied file objects, pathlib.Path, DISSECT_STREAM_BUFFER_SIZE) is already in the code; checks import /repo's working tree directly",
        "baseline_off_cmd": "cd /repo && /venv/bin/python -m pytest -ra -q -p no:cacheprovider --timeout=900 --continue-on-collection-errors",
        "source_commits": hooks_commits,
        "add_only": True,
    },
    "engines": [
        {"name": "hvsim", "path": "/verif/hvsim", "serves_properties": [c["property_id"] for c in checks],
         "kind_free_text": "deterministic single-process simulator: seeded stub writer peers + simulated storage/namespace (SimFile/SimHandle/SimFS) + step meter + audit monitor around the real dissect.hypervisor readers; reference models as oracles; ddmin minimisation; replay files"},
    ],
    "checks": checks,
    "not_applicable": na,
    "notes": "See /verif/DESIGN.md. VERIF_SEED selects the campaign seed (default 1); VERIF_RUNS / VERIF_BUDGET_S / VERIF_WORKERS override the tier's run count, wall cap and process count. Exit 0 = held on everything explored (known findings are announced as KNOWN-FINDING lines), 1 = VIOLATION line(s) printed, 2 = harness error.",
}
json.dump(m, open(os.path.join(HERE, "MANIFEST.json"), "w"), indent=1)
print("checks:", [c["property_id"] for c in checks], "n/a:", [n["property_id"] for n in na])
